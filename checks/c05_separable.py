"""C05 - entanglement criteria never flag a separable state (DESIGN.md section 4 / C05).

Mode H, explicit-state search: a state is a convex mixture of product states reached from a pure product state by
*mix-in* events  rho -> (1-w) rho + w sigma  (sigma from the complete product alphabet of the local alphabets,
w in {1/2, 0.1, 1e-6}).  Every reachable state within the depth bound is separable by construction; every criterion is an
invariant evaluated at every state (states are deduplicated by the rounded matrix).  Structured corners (many-term full-rank
mixtures, repeated terms, nearly parallel vectors, diagonal states, analytic families on their separable ranges incl. end
points) are separate case kinds.  The symmetric-extension SDPs are evaluated on a declared sub-alphabet under a hard
wall-clock cap per case.
"""
import itertools

import numpy as np

from mc import core

PROPERTY = 'C05'
GUARD = ['numqi.entangle', 'numqi.utils']  # argument-immutability oracle (mc.seams.ImmutabilityGuard)
GUARD_LAYOUT = ['numqi.entangle._misc', 'numqi.entangle.eof', 'numqi.entangle.measure.get_gme_2qubit', 'numqi.entangle.ppt.is_ppt', 'numqi.entangle.ppt.is_generalized_ppt', 'numqi.utils']  # memory-layout metamorphic oracle: eigenvalue-based functions only (SDP / LP optima differ by solver tolerance)
LEVEL = 'model_checking'
RULE = ('state = separable density matrix reached by mix-in events from a pure product state of the local alphabets (key = rounded '
        'matrix); all event sequences up to the depth bound are enumerated; transition = evaluation of one criterion on one state; '
        'invariant: every criterion accepts, every closed-form measure is finite and zero; non-trivial = distinct mixed (rank>=2) states')
ASSUMPTIONS = [
    'every explored state is separable by construction (convex mixture of explicit product projectors)',
    'closed-form measures: |value| <= 1e-6 counts as zero (square roots amplify eps to ~1e-8); negativity <= 1e-9',
    'SDP criteria: declared sub-alphabet; a case over the wall-clock cap is listed as capped and never counted as pass; cvxpy SolverError escaping the library = solver_failed (listed)',
    'generic atoms of the local alphabets are drawn once from VERIF_SEED',
]
CASE_TIMEOUT = 300
CHUNK = 1

WEIGHTS = [0.5, 0.1, 1e-6]


# ------------------------------------------------------------------------------------------------ alphabets
def local_alphabet(d, rng, n_generic):
    vs = []
    eye = np.eye(d, dtype=np.complex128)
    for i in range(d):
        vs.append(eye[i])
    if d == 2:
        for v in ([1, 1], [1, -1], [1, 1j], [1, -1j]):
            vs.append(np.array(v, dtype=np.complex128) / np.sqrt(2))
    else:
        w = np.exp(2j * np.pi / d)
        for k in range(d):
            vs.append(np.array([w ** (k * j) for j in range(d)]) / np.sqrt(d))
    for _ in range(n_generic):
        v = rng.normal(size=d) + 1j * rng.normal(size=d)
        vs.append(v / np.linalg.norm(v))
    return vs


def product_alphabet(dims, env, n_generic=1):
    locs = [local_alphabet(d, env.rng('C05', 'local', i, d), n_generic) for i, d in enumerate(dims)]
    prods = []
    for combo in itertools.product(*locs):
        v = combo[0]
        for u in combo[1:]:
            v = np.kron(v, u)
        prods.append(v)
    return prods


_ALPHA = {}


def get_alpha(dims, env):
    k = (tuple(dims), env.seed)
    if k not in _ALPHA:
        vs = product_alphabet(dims, env)
        _ALPHA[k] = [np.outer(v, v.conj()) for v in vs]
    return _ALPHA[k]


def skey(rho):
    return (np.round(rho.real, 9) + 0.0).tobytes() + (np.round(rho.imag, 9) + 0.0).tobytes()


# ------------------------------------------------------------------------------------------------ the invariant
def check_state(nq, out, rho, dims, label, with_lu=None):
    """all non-SDP criteria on one separable state"""
    dims = tuple(dims)
    N = rho.shape[0]
    E = nq.entangle

    def guard(name, fn):
        out.trans()
        try:
            with np.errstate(all='ignore'):
                return True, fn()
        except Exception as e:
            out.violation('%s/raises_%s' % (name, type(e).__name__), '%s raised %r on a separable state of dims %s (%s)' % (name, e, dims, label), rho=rho, dims=dims)
            return False, None

    ok, v = guard('is_ppt', lambda: E.is_ppt(rho, dims))
    if ok and not bool(v):
        out.violation('is_ppt/flags_separable', 'is_ppt rejects a separable state of dims %s (%s)' % (dims, label), rho=rho, dims=dims)
    ok, v = guard('is_generalized_ppt', lambda: E.is_generalized_ppt(rho, dims))
    if ok and not bool(v):
        out.violation('is_generalized_ppt/flags_separable', 'is_generalized_ppt rejects a separable state of dims %s (%s)' % (dims, label), rho=rho, dims=dims)
    ok, v = guard('check_reduction_witness', lambda: E.check_reduction_witness(rho, dims))
    if ok and not bool(v):
        out.violation('check_reduction_witness/flags_separable', 'reduction criterion rejects a separable state of dims %s (%s)' % (dims, label), rho=rho, dims=dims)
    if len(dims) == 2 and dims[0] == dims[1]:
        ok, v = guard('check_swap_witness', lambda: E.check_swap_witness(rho))
        if ok and not bool(v):
            out.violation('check_swap_witness/flags_separable', 'swap witness rejects a separable state of dims %s (%s)' % (dims, label), rho=rho, dims=dims)
    if len(dims) == 2:
        ok, v = guard('get_negativity', lambda: E.get_negativity(rho, dims))
        if ok:
            if not np.isfinite(v):
                out.violation('get_negativity/not_finite', 'negativity of a separable state is %r (%s)' % (v, label), rho=rho, dims=dims)
            elif abs(v) > 1e-9:
                out.violation('get_negativity/nonzero_on_separable', 'negativity %.3g of a separable state (%s)' % (v, label), rho=rho, dims=dims)
    if dims == (2, 2):
        for name, fn in (('get_concurrence_2qubit', E.get_concurrence_2qubit), ('get_eof_2qubit', E.get_eof_2qubit), ('get_gme_2qubit', E.get_gme_2qubit)):
            ok, v = guard(name, lambda fn=fn: fn(rho))
            if ok:
                v = float(np.real(v)) if np.ndim(v) == 0 else np.nan
                if not np.isfinite(v):
                    out.violation('%s/not_finite' % name, '%s of a separable two-qubit state is %r (%s)' % (name, v, label), rho=rho)
                elif abs(v) > 1e-6:
                    out.violation('%s/nonzero_on_separable' % name, '%s = %.3g on a separable two-qubit state (%s)' % (name, v, label), rho=rho)
    out.state()


def mix(rho, sigma, w):
    return (1 - w) * rho + w * sigma


# ------------------------------------------------------------------------------------------------ cases
DIMS_QUICK = [(2, 2), (2, 3), (3, 2), (3, 3), (2, 4), (2, 2, 2), (2, 3, 2)]


def build_cases(tier, seed):
    cases = []
    info = {'dims': [list(d) for d in DIMS_QUICK], 'weights': WEIGHTS}
    depth = {}
    for dims in DIMS_QUICK:
        nalpha = int(np.prod([{2: 7, 3: 7, 4: 9}[d] for d in dims]))
        if tier == 'quick':
            depth[dims] = 2 if dims == (2, 2) else 1
        else:
            depth[dims] = 3 if dims == (2, 2) else (2 if len(dims) == 2 else 1)
        # one case per (initial product state): enumerates all event sequences below it
        for i in range(nalpha):
            cases.append({'kind': 'search', 'dims': list(dims), 'init': i, 'depth': depth[dims]})
        cases.append({'kind': 'structured', 'dims': list(dims)})
    info['depth'] = {str(k): v for k, v in depth.items()}
    info['second_level_weights'] = [0.5] if tier == 'quick' else [0.5, 1e-6]
    info['quick_menu_reduction'] = 'quick: tripartite level-1 events use every 3rd product state and w in {1/2,1e-6}; (2,2) level-2 events use every 3rd product state with w=1/2; thorough uses the full menus'
    info['third_level'] = 'thorough, (2,2) only: events restricted to every 5th product state with w=1/2 (stride-reduced menu)'
    for fam in ('werner', 'isotropic', 'horodecki'):
        cases.append({'kind': 'family', 'family': fam})
    # ---- SDP sub-alphabet
    sdp = []
    for k, boson, ppt in ((2, False, False), (2, True, False), (2, False, True), (3, False, False), (3, True, False), (3, True, True)):
        n22 = 49
        step = 7
        for lo in range(0, n22, step):
            sdp.append({'kind': 'sdp', 'dims': [2, 2], 'k': k, 'boson': boson, 'ppt': ppt, 'lo': lo, 'hi': lo + step, 'reg': 0.0,
                        'weights': [0.5, 1e-6] if tier == 'quick' else WEIGHTS})
    big = [((2, 3), 2, False, False), ((2, 3), 2, True, False), ((3, 3), 2, True, False)]
    if tier == 'thorough':
        big += [((2, 3), 2, True, True), ((2, 3), 3, True, False), ((3, 3), 2, False, False), ((3, 2), 2, True, False), ((2, 4), 2, True, False)]
    for dims, k, boson, ppt in big:
        for lo in range(0, 4 if tier == 'quick' else 24, 2):
            sdp.append({'kind': 'sdp_big', 'dims': list(dims), 'k': k, 'boson': boson, 'ppt': ppt, 'lo': lo, 'hi': lo + 2, 'reg': 1e-3})
    cases += sdp
    info['sdp'] = {'(2,2)': 'all states of depth <= 1 (weights %s) for k=2,3 x {plain, boson, +PPT}' % ([0.5, 1e-6] if tier == 'quick' else WEIGHTS),
                   'larger': [str(b) for b in big], 'regularisation_of_larger': 1e-3, 'cap_s': CASE_TIMEOUT}
    info['exhaustive'] = True
    info['note'] = 'exhaustive within the stated depth / weight / alphabet bounds; SDP criteria only on the declared sub-alphabet'
    return cases, info


def run_case(case, out, env):
    import numqi
    kind = case['kind']
    if kind == 'search':
        dims = tuple(case['dims'])
        A = get_alpha(dims, env)
        rho0 = A[case['init']]
        seen = set()
        w2 = [0.5] if env.tier == 'quick' else [0.5, 1e-6]

        def visit(rho, label):
            k = skey(rho)
            if k in seen:
                out.count('merged_states')
                return False
            seen.add(k)
            check_state(numqi, out, rho, dims, label)
            ev = np.linalg.eigvalsh(rho)
            out.outcome((dims, np.round(ev, 7)), nontrivial=bool((ev > 1e-9).sum() >= 2))
            return True
        visit(rho0, 'init=%d' % case['init'])
        quick = env.tier == 'quick'
        tri = len(dims) >= 3
        lvl1 = list(range(0, len(A), 3)) if (quick and tri) else list(range(len(A)))
        w1 = [0.5, 1e-6] if (quick and tri) else WEIGHTS
        lvl2 = list(range(0, len(A), 3)) if quick else list(range(len(A)))
        if case['depth'] >= 1:
            for j in lvl1:
                sg = A[j]
                for w in w1:
                    r1 = mix(rho0, sg, w)
                    new = visit(r1, 'init=%d;mix(%d,%g)' % (case['init'], j, w))
                    if new and case['depth'] >= 2:
                        for j2 in lvl2:
                            sg2 = A[j2]
                            for wb in w2:
                                r2 = mix(r1, sg2, wb)
                                new2 = visit(r2, 'init=%d;mix(%d,%g);mix(%d,%g)' % (case['init'], j, w, j2, wb))
                                if new2 and case['depth'] >= 3 and w == 0.5 and wb == 0.5:
                                    for j3 in range(0, len(A), 5):
                                        visit(mix(r2, A[j3], 0.5), 'init=%d;mix(%d,%g);mix(%d,%g);mix(%d,0.5)' % (case['init'], j, w, j2, wb, j3))
        out.trace()
        out.sample = {'kind': 'search', 'dims': list(dims), 'init': case['init'], 'depth': case['depth'], 'distinct_states': len(seen)}
    elif kind == 'structured':
        dims = tuple(case['dims'])
        A = get_alpha(dims, env)
        N = int(np.prod(dims))
        n = len(A)
        # equal-weight mixtures of 1..2*N terms taken with fixed strides through the product alphabet
        for stride in (1, 3, 7, 11):
            for nterm in range(1, 2 * N + 1):
                idx = [(stride * t + nterm) % n for t in range(nterm)]
                rho = sum(A[i] for i in idx) / nterm
                check_state(numqi, out, rho, dims, 'equal mixture stride=%d terms=%d' % (stride, nterm))
                out.outcome((dims, stride, nterm), nontrivial=nterm > 1)
        # repeated terms
        rho = (A[1] + A[1] + A[2]) / 3
        check_state(numqi, out, rho, dims, 'repeated terms')
        # nearly parallel product vectors (angle 1e-6) and geometric weights
        locs = [np.eye(d, dtype=np.complex128) for d in dims]
        for eps_ in (1e-6, 1e-3):
            vs = []
            for sgn in (1, -1):
                v = np.ones(1, dtype=np.complex128)
                for L in locs:
                    u = L[0] + sgn * eps_ * L[1]
                    v = np.kron(v, u / np.linalg.norm(u))
                vs.append(v)
            rho = 0.5 * np.outer(vs[0], vs[0].conj()) + 0.5 * np.outer(vs[1], vs[1].conj())
            check_state(numqi, out, rho, dims, 'nearly parallel eps=%g' % eps_)
            out.outcome((dims, 'parallel', eps_), nontrivial=True)
        # computational-basis mixtures (diagonal states on the boundary of the state space) and the maximally mixed state
        for nb in range(1, N + 1):
            p = np.zeros(N)
            p[:nb] = (np.arange(nb) + 1.0)
            p /= p.sum()
            check_state(numqi, out, np.diag(p).astype(np.complex128), dims, 'diagonal rank %d' % nb)
            out.outcome((dims, 'diag', nb), nontrivial=nb > 1)
        check_state(numqi, out, np.eye(N, dtype=np.complex128) / N, dims, 'maximally mixed')
        check_state(numqi, out, np.eye(N) / N, dims, 'maximally mixed (real dtype)')
        out.trace()
        out.sample = {'kind': 'structured', 'dims': list(dims)}
    elif kind == 'family':
        fam = case['family']
        if fam == 'werner':
            for d in (2, 3):
                F = np.zeros((d * d, d * d))
                for i in range(d):
                    for j in range(d):
                        F[i * d + j, j * d + i] = 1
                for a in np.concatenate([np.linspace(-1, 1 / d, 9), [1 / d - 1e-9]]):
                    rho = (np.eye(d * d) - a * F) / (d * d - d * a)
                    check_state(numqi, out, rho.astype(np.complex128), (d, d), 'werner d=%d alpha=%.9g' % (d, a))
                    out.outcome(('werner', d, round(float(a), 9)), nontrivial=True)
        elif fam == 'isotropic':
            for d in (2, 3):
                phi = np.eye(d).reshape(-1) / np.sqrt(d)
                P = np.outer(phi, phi)
                for a in np.concatenate([np.linspace(-1 / (d * d - 1), 1 / (d + 1), 9), [1 / (d + 1) - 1e-9]]):
                    rho = (1 - a) / (d * d) * np.eye(d * d) + a * P
                    check_state(numqi, out, rho.astype(np.complex128), (d, d), 'isotropic d=%d alpha=%.9g' % (d, a))
                    out.outcome(('isotropic', d, round(float(a), 9)), nontrivial=True)
        else:
            # Horodecki 1997 families at their separable end points (b=0,1 for 2x4; a=0,1 for 3x3), built from the paper's formulas
            for b in (0.0, 1.0):
                rho = horodecki_2x4(b)
                check_state(numqi, out, rho.astype(np.complex128), (2, 4), 'horodecki2x4 b=%g' % b)
                out.outcome(('h24', b), nontrivial=True)
            for a in (0.0, 1.0):
                rho = horodecki_3x3(a)
                check_state(numqi, out, rho.astype(np.complex128), (3, 3), 'horodecki3x3 a=%g' % a)
                out.outcome(('h33', a), nontrivial=True)
        out.trace()
        out.sample = {'kind': 'family', 'family': fam}
    elif kind in ('sdp', 'sdp_big'):
        import cvxpy
        dims = tuple(case['dims'])
        A = get_alpha(dims, env)
        N = int(np.prod(dims))
        states = []
        labels = []
        if kind == 'sdp':
            for i in range(case['lo'], min(case['hi'], len(A))):
                states.append(A[i])
                labels.append('init=%d' % i)
                for j, sg in enumerate(A):
                    for w in case['weights']:
                        states.append(mix(A[i], sg, w))
                        labels.append('init=%d;mix(%d,%g)' % (i, j, w))
        else:
            n = len(A)
            for t in range(case['lo'], case['hi']):
                i, j, l = (5 * t + 1) % n, (11 * t + 3) % n, (17 * t + 7) % n
                rho = (A[i] + A[j] + A[l]) / 3
                states.append((1 - case['reg']) * rho + case['reg'] * np.eye(N) / N)
                labels.append('regularised mixture of products %d,%d,%d' % (i, j, l))
        uniq = {}
        for s_, l_ in zip(states, labels):
            uniq.setdefault(skey(s_), (s_, l_))
        states = [v[0] for v in uniq.values()]
        labels = [v[1] for v in uniq.values()]
        name = 'is_ABk_symmetric_ext[k=%d,boson=%s,ppt=%s]' % (case['k'], case['boson'], case['ppt'])
        try:
            res = numqi.entangle.is_ABk_symmetric_ext(np.stack(states), dims, case['k'], use_ppt=case['ppt'], use_boson=case['boson'], use_tqdm=False)
        except cvxpy.error.SolverError:
            out.count('solver_failed')
            out.state(len(states))
            out.trans(1)
            return
        res = np.asarray(res)
        out.state(len(states))
        out.trans(len(states))
        for ok, s_, l_ in zip(res, states, labels):
            if not bool(ok):
                out.violation('is_ABk_symmetric_ext/flags_separable/k=%d,boson=%s,ppt=%s' % (case['k'], case['boson'], case['ppt']),
                              '%s answers False (entangled) for a separable state of dims %s (%s)' % (name, dims, l_), rho=s_, dims=dims)
                break
        out.outcome((dims, case['k'], case['boson'], case['ppt'], case['lo'], int(res.sum())), nontrivial=True)
        out.trace()
        out.sample = {'kind': kind, 'dims': list(dims), 'k': case['k'], 'states': len(states), 'first': labels[0]}
    else:
        raise ValueError(kind)


def horodecki_2x4(b):
    """P. Horodecki, Phys. Lett. A 232 (1997) 333, eq. (32)"""
    rho = np.zeros((8, 8))
    for i in range(8):
        rho[i, i] = b
    rho[7, 7] = (1 + b) / 2
    rho[4, 4] = (1 + b) / 2
    for i, j in ((0, 5), (1, 6), (2, 7)):
        rho[i, j] = rho[j, i] = b
    rho[4, 7] = rho[7, 4] = np.sqrt(1 - b * b) / 2
    return rho / (7 * b + 1)


def horodecki_3x3(a):
    """P. Horodecki, Phys. Lett. A 232 (1997) 333, eq. (29)"""
    rho = np.zeros((9, 9))
    for i in range(9):
        rho[i, i] = a
    rho[6, 6] = (1 + a) / 2
    rho[8, 8] = (1 + a) / 2
    for i, j in ((0, 4), (0, 8), (4, 8)):
        rho[i, j] = rho[j, i] = a
    rho[6, 8] = rho[8, 6] = np.sqrt(1 - a * a) / 2
    return rho / (8 * a + 1)
