"""C09 - Sp(2n,F2) indexing is a bijection onto the symplectic group.

Spaces (DESIGN.md section 4, C09); everything listed is enumerated completely, nothing is sampled:
  number   : get_number(n, 'base'|'order'|'coset') for n = 1..12 against the product formula 2^(n^2) prod (4^i - 1).
  bits     : int_to_bitarray / bitarray_to_int for every integer of every width 1..12 (16 thorough) + one-hot/all-ones
             patterns up to width 24 (the mixed-radix digits are turned into vectors through these two).
  tuples   : every mixed-radix tuple for n=1 (6) and n=2 (720); n=3: quick = every inner tuple (720) x every outer digit
             pair (a3,b3) with a3 in {0,max} or b3 in {0,1,2,4,8,16,max} (491 of 2016 cosets, 353 520 tuples), thorough = all 1 451 520.
             Per tuple: from_int_tuple -> binary uint8 matrix, M L M^T = L and M^T L M = L, to_int_tuple(M) == tuple,
             inverse(M) two-sided. Over the whole domain: images pairwise distinct, their number == get_number(n,'order')
             == product formula, and for n <= 2 the image set == the group obtained by brute-force filtering of all
             2^(4n^2) binary matrices. n <= 2 is one work unit per n (kind 'bijection'); n = 3 is one work unit per outer
             coset (kind 'tuples', 720 tuples each), the packed images are merged and compared across workers in finalize.
  group    : the other direction for n <= 2: every matrix of the brute-force group -> to_int_tuple in range, distinct,
             from_int_tuple(to_int_tuple(M)) == M, inverse(M) two-sided.
  big      : n = 3..10, structured tuple alphabet replacing "random tuples": all-zero, all-max, one position at max / at zero,
             G generic atoms, and for n <= 6 (8 thorough) every value of every single position on the all-zero and the
             all-max background. Same per-tuple checks; distinct tuples -> distinct matrices within the alphabet.
  transv   : find_transvection for all ordered pairs of non-zero vectors, n <= 3 (n <= 5 thorough): the returned (h0,h1),
             applied by the *reference* transvection x + <x,h>h, map v0 to v1; numqi's transvection agrees.
  tbatch   : transvection(X, h) for every h in F2^(2n) on the stack X of all vectors (2-D and 3-D batch) == reference rowwise.
  rand     : rand_SpF2 driven by a stub random.Random: *every* answer the library's randint(a,b) calls admit is enumerated
             (depth-first over the requested ranges, n <= 2 all three return kinds, n = 3 thorough return kind 'int_tuple'):
             requested ranges == radix ranges, reachable tuples == all tuples, the three return kinds mutually consistent,
             matrix symplectic, to_int_tuple(matrix) == answers.
  randseed : rand_SpF2(n, kind, seed) for n = 1..10 and a few integer seeds (generic atoms): digits in range, kinds consistent.
  closure  : n = 3..6 (8 thorough): matrices that are not literal from_int_tuple outputs - M^T (handed over as the Fortran-ordered
             view), inverse(M) (handed over exactly as returned) and all ordered products M_i M_j mod 2 of the alphabet matrices:
             to_int_tuple in range and injective, from_int_tuple(to_int_tuple(X)) == X, inverse two-sided; and for each of them
             (and for every element of the brute-force group, n <= 2) to_int_tuple / inverse / transvection on the same values
             in the layouts C, Fortran, every-second-element view, offset window of a Fortran array, negative strides == the
             C-contiguous call;
             find_transvection on strided column views == on contiguous copies.
  forms    : from_int_tuple with the digits as list / int64 array / int32 array / tuple of np.int64 / uint8 array / tuple of
             np.uint8 (uint8 while every radix <= 256, n <= 4) == from_int_tuple(tuple of int): all tuples n <= 2, alphabet
             n = 3..6; get_number(n as np.int64 / np.int32 / np.uint8 / float, kind upper / title case / np.str_, keyword and
             positional) == the plain call. A precondition assert on such an undocumented form is counted, not reported.
  leaves   : vacuity guard (finalize): the ordered pairs of every n >= 2 reach all 9 leaves of the Lemma-2 case distinction
             of find_transvection (labels computed from the inputs alone), n = 1 its 2 leaves.
Oracle: plain integer arithmetic mod 2 (numpy int64), brute-force group for n <= 2, closed product formula for the order.
Everything is exact arithmetic over F2: there is no tolerance anywhere in this check.
"""
import itertools

import numpy as np

from mc import core, ref
from mc import seams

PROPERTY = 'C09'
GUARD = ['numqi.group.spf2']  # argument-immutability oracle (mc.seams.ImmutabilityGuard)
LEVEL = 'model_checking'
RULE = ('state = one input point of a completely enumerated finite domain (a mixed-radix tuple, a group element, an ordered pair of '
        'non-zero vectors, a (vector stack, h) pair, one sequence of answers of the stubbed random.Random, an integer of a bit width); '
        'transition = one call of from_int_tuple / to_int_tuple / inverse / find_transvection / transvection / rand_SpF2 / get_number '
        'compared with integer arithmetic mod 2 (plus: the same matrix values in five memory layouts, the same digits in seven container / '
        'digit types, transposes / inverses / pairwise products of the alphabet matrices as to_int_tuple inputs); trace = one tuple (or matrix) taken through from -> symplectic test -> to -> inverse '
        'in lock-step; outcome = the returned matrix / transvection pair; non-trivial = not the identity matrix / not the zero pair. '
        'Whole-domain invariants (pairwise distinct images, count == group order, image set == brute-force group for n<=2) inside the '
        'n<=2 work units and, for n=3 and the structured alphabet, across workers in finalize.')
ASSUMPTIONS = [
    'the symplectic form is L = [[0,1],[1,0]] (x) 1_n (as in the repository tests); over F2 the sign convention is immaterial',
    '|Sp(2n,F2)| = 2^(n^2) prod_{i<=n} (4^i - 1) is taken from the literature; for n <= 2 it is re-derived by brute-force filtering',
    'a set of N = |G| pairwise distinct elements of G is all of G (n = 3: surjectivity follows from counting)',
    'tuples outside the mixed-radix ranges and non-symplectic matrices are outside the domain of from_int_tuple / to_int_tuple',
    'n >= 4 is covered on the structured alphabet only (zero/max/single-position sweeps/atoms), not exhaustively; to_int_tuple additionally '
    'sees the transposes, inverses and pairwise products of the alphabet matrices (n <= 6, 8 thorough)',
    'memory layouts: C, Fortran, step-2 view, offset window of a Fortran array, doubly reversed view (negative strides); other dtypes than uint8 are outside the documented domain',
    'list / numpy containers and numpy scalar digits are not promised by the docstrings (tuple[int]): if the library accepts them the result '
    'must equal the tuple-of-int call, a precondition assert on them is a counted rejection',
]
CHUNK = 1


def _viol(out, key, what, **detail):
    """out.violation with a cap of 5 materialised records per key and case (all are counted): a flood on one key must
    not push later findings of the same case beyond Out.MAX_VIOL_PER_CASE"""
    seen = out.__dict__.setdefault('_c09_per_key', {})
    seen[key] = seen.get(key, 0) + 1
    if seen[key] <= 5:
        out.violation(key, what, **detail)
    else:
        out.n_violations += 1


# ------------------------------------------------------------------ reference helpers (independent of numqi)
def ref_bases(n):
    """(a1,b1,...,an,bn) with ak = 4^k - 1 (non-zero vectors of F2^(2k)), bk = 2^(2k-1) (vectors with <e1,.> = 1)"""
    return tuple(y for k in range(1, n + 1) for y in (4**k - 1, 2**(2 * k - 1)))


def ref_coset(n):
    return tuple((4**k - 1) * 2**(2 * k - 1) for k in range(1, n + 1))


def prod(xs):
    r = 1
    for x in xs:
        r *= int(x)
    return r


def unrank(bases, r):
    """mixed-radix digits of r, position 0 least significant (so a contiguous rank range shares the outer digits)"""
    out = []
    for b in bases:
        out.append(int(r % b))
        r //= b
    return tuple(out)


def rank(bases, t):
    r = 0
    for b, d in zip(reversed(bases), reversed(t)):
        r = r * b + int(d)
    return r


def ref_ip(x, h):
    """symplectic product <x,h> over F2; x (...,2n), h (...,2n) broadcastable; int64"""
    x = np.asarray(x).astype(np.int64)
    h = np.asarray(h).astype(np.int64)
    n = x.shape[-1] // 2
    return ((x[..., :n] * h[..., n:]).sum(-1) + (x[..., n:] * h[..., :n]).sum(-1)) % 2


def ref_transvection(x, h):
    x = np.asarray(x).astype(np.int64)
    h = np.asarray(h).astype(np.int64)
    return (x + ref_ip(x, h)[..., None] * h) % 2


def clear_spf2_caches(sp):
    for f in list(vars(sp).values()):
        cc = getattr(f, 'cache_clear', None)
        if callable(cc):
            cc()


def all_vectors(n):
    return np.array(list(itertools.product([0, 1], repeat=2 * n)), dtype=np.uint8)


def ref_bits(i, width):
    return np.array([(i >> k) & 1 for k in range(width)], dtype=np.uint8)


def is_symplectic_batch(Ms, n):
    """Ms (k,2n,2n) int64 -> bool (k,) : M L M^T == L and M^T L M == L (mod 2)"""
    L = ref.symplectic_form(n).astype(np.int64)
    MT = Ms.transpose(0, 2, 1)
    a = np.all((Ms @ L @ MT) % 2 == L, axis=(1, 2))
    b = np.all((MT @ L @ Ms) % 2 == L, axis=(1, 2))
    return a, b


def pack(M):
    return np.packbits(np.asarray(M, dtype=np.uint8).reshape(-1)).tobytes()


def valid_matrix(M, n):
    return isinstance(M, np.ndarray) and M.shape == (2 * n, 2 * n) and M.dtype == np.uint8 and int(M.max()) <= 1


def transv_branch(v0, v1, n):
    """which case of Lemma 2 (Koenig-Smolin) the pair belongs to - used only to name the finding key"""
    if np.array_equal(v0, v1):
        return 'equal'
    if int(ref_ip(v0, v1)) == 1:
        return 'ip1'
    s0 = (v0[:n] | v0[n:]).astype(bool)
    s1 = (v1[:n] | v1[n:]).astype(bool)
    both = np.nonzero(s0 & s1)[0]
    if len(both):
        i = both[0]
        return 'common_pair_same' if (v0[i] == v1[i] and v0[i + n] == v1[i + n]) else 'common_pair_diff'
    return 'disjoint_support'


def transv_subbranch(v0, v1, n):
    """every leaf of the Lemma-2 case distinction (the coarse label of transv_branch refined by the form of the pair that
    decides the inner if): used for the vacuity guard 'all leaves are reached' only, computed from the inputs alone"""
    br = transv_branch(v0, v1, n)
    s0 = (v0[:n] | v0[n:]).astype(bool)
    s1 = (v1[:n] | v1[n:]).astype(bool)
    if br == 'common_pair_same':
        i = np.nonzero(s0 & s1)[0][0]
        return br + ('/pair_11' if v0[i] == v0[i + n] else '/pair_01_or_10')
    if br == 'disjoint_support':
        i = np.nonzero(s0 & ~s1)[0][0]
        j = np.nonzero(~s0 & s1)[0][0]
        return br + ('/v0_11' if v0[i] == v0[i + n] else '/v0_01_or_10') + ('/v1_11' if v1[j] == v1[j + n] else '/v1_01_or_10')
    return br


TRANSV_LEAVES = {1: ['equal', 'ip1']}
for _n in range(2, 8):
    TRANSV_LEAVES[_n] = ['equal', 'ip1', 'common_pair_diff', 'common_pair_same/pair_11', 'common_pair_same/pair_01_or_10'] + [
        'disjoint_support/v0_%s/v1_%s' % (a, b) for a in ('11', '01_or_10') for b in ('11', '01_or_10')]


# ------------------------------------------------------------------ the per-tuple lock-step check
def check_tuples(numqi, out, n, tuples, site):
    """from -> valid -> symplectic -> to -> inverse for every tuple; returns list of (tuple, packed matrix or None)"""
    sp = numqi.group.spf2
    eye = np.eye(2 * n, dtype=np.int64)
    L = ref.symplectic_form(n).astype(np.int64)
    ident = pack(np.eye(2 * n, dtype=np.uint8))
    good, mats, invs, ret = [], [], [], []
    for t in tuples:
        out.state()
        out.trans()
        try:
            M = sp.from_int_tuple(tuple(t))
        except Exception as e:
            _viol(out, '%s/from_int_tuple/%s' % (site, type(e).__name__), 'from_int_tuple raised %r on an in-range tuple' % (e,), n=n, int_tuple=list(t))
            ret.append((t, None))
            continue
        if not valid_matrix(M, n):
            _viol(out, '%s/from_int_tuple/bad_output' % site, 'result is not a binary uint8 (2n,2n) matrix: shape %s dtype %s' % (getattr(M, 'shape', None), getattr(M, 'dtype', None)),
                          n=n, int_tuple=list(t), result=M)
            ret.append((t, None))
            continue
        key = pack(M)
        ret.append((t, key))
        out.outcome(b'M%d:' % n + key, nontrivial=key != ident, pre_digested=True)
        M64 = M.astype(np.int64)
        sa = np.array_equal((M64 @ L @ M64.T) % 2, L)
        sb = np.array_equal((M64.T @ L @ M64) % 2, L)
        if not (sa and sb):
            # a non-symplectic matrix is outside the domain of to_int_tuple / inverse: nothing further is demanded of it
            _viol(out, '%s/from_int_tuple/not_symplectic' % site, 'image does not preserve the symplectic form (M L M^T == L: %s, M^T L M == L: %s)' % (sa, sb),
                  n=n, int_tuple=list(t), matrix=M)
            continue
        # inverse map
        out.trans()
        try:
            t2 = core.pure_call(out, 'pure/to_int_tuple', sp.to_int_tuple, M.copy())
        except Exception as e:
            _viol(out, '%s/to_int_tuple/%s' % (site, type(e).__name__), 'to_int_tuple raised %r on from_int_tuple(t)' % (e,), n=n, int_tuple=list(t), matrix=M)
            t2 = None
        if t2 is not None and not (isinstance(t2, tuple) and len(t2) == len(t) and all(int(a) == int(b) for a, b in zip(t2, t))):
            _viol(out, '%s/to_int_tuple/roundtrip' % site, 'to_int_tuple(from_int_tuple(t)) = %s != t = %s' % (list(t2) if isinstance(t2, tuple) else t2, list(t)),
                          n=n, int_tuple=list(t), matrix=M, got=list(t2) if isinstance(t2, tuple) else repr(t2))
        # closed-form inverse
        out.trans()
        try:
            Minv = core.pure_call(out, 'pure/inverse', sp.inverse, M.copy())
        except Exception as e:
            _viol(out, '%s/inverse/%s' % (site, type(e).__name__), 'inverse raised %r on a symplectic matrix' % (e,), n=n, int_tuple=list(t), matrix=M)
            Minv = None
        if Minv is not None and not (isinstance(Minv, np.ndarray) and Minv.shape == M.shape):
            _viol(out, '%s/inverse/bad_output' % site, 'inverse returned shape %s' % (getattr(Minv, 'shape', None),), n=n, int_tuple=list(t), matrix=M)
            Minv = None
        good.append(t)
        mats.append(M64)
        invs.append(None if Minv is None else Minv.astype(np.int64))
        out.trace()
    if mats:
        Ms = np.stack(mats)
        idx = [i for i in range(len(invs)) if invs[i] is not None]
        if idx:
            Mi = np.stack([invs[i] for i in idx])
            Mm = Ms[idx]
            left = np.all((Mi @ Mm) % 2 == eye, axis=(1, 2))
            right = np.all((Mm @ Mi) % 2 == eye, axis=(1, 2))
            for j in np.nonzero(~(left & right))[0][:5]:
                i = idx[j]
                _viol(out, '%s/inverse/not_two_sided' % site, 'inverse(M) is not a two-sided inverse (inv.M == 1: %s, M.inv == 1: %s)' % (bool(left[j]), bool(right[j])),
                              n=n, int_tuple=list(good[i]), matrix=mats[i], inverse=invs[i])
    return ret


def report_collisions(out, n, res, site):
    """distinct tuples must give distinct matrices (within one case; across cases see finalize)"""
    seen = {}
    for t, k in res:
        if k is None:
            continue
        if k in seen and seen[k] != tuple(t):
            _viol(out, '%s/from_int_tuple/collision' % site, 'distinct tuples %s and %s give the same matrix' % (list(seen[k]), list(t)),
                          n=n, int_tuple_a=list(seen[k]), int_tuple_b=list(t), matrix=np.unpackbits(np.frombuffer(k, dtype=np.uint8))[:4 * n * n].reshape(2 * n, 2 * n))
        else:
            seen[k] = tuple(t)
    return seen


def whole_domain_invariants(numqi, out, n, seen, n_tuples):
    """seen: packed image -> tuple for *all* tuples of this n. Count == order (implementation's and the formula), image set == group."""
    out.trans()
    order_impl = int(numqi.group.spf2.get_number(n, kind='order'))
    if not (len(seen) == order_impl == ref.sp_order(n)):
        _viol(out, 'tuples/from_int_tuple/count_ne_order', 'number of distinct images %d (from %d tuples), get_number(n,"order") = %d, 2^(n^2) prod(4^i-1) = %d' % (len(seen), n_tuples, order_impl, ref.sp_order(n)), n=n)
    if n <= 2:
        gset = {pack(M): M for M in ref.all_symplectic(n)}
        missing = [gset[k] for k in gset if k not in seen]
        extra = [seen[k] for k in seen if k not in gset]
        if missing:
            _viol(out, 'tuples/from_int_tuple/not_onto', '%d symplectic matrices are never produced by from_int_tuple' % len(missing), n=n, first_missing=missing[0])
        if extra:
            _viol(out, 'tuples/from_int_tuple/outside_group', '%d images are not in the brute-force group' % len(extra), n=n, first_int_tuple=list(extra[0]))


# ------------------------------------------------------------------ matrices that are not literal from_int_tuple outputs, in every memory layout
LAYOUTS = ('C', 'F', 'strided', 'offset_view', 'negative_strides')


def relayout(X, how):
    """the same uint8 matrix in another memory layout (values identical; only strides / base pointer differ)"""
    X = np.asarray(X, dtype=np.uint8)
    if how == 'C':
        return np.ascontiguousarray(X)
    if how == 'F':
        return np.asfortranarray(X)
    if how == 'strided':       # every second row and column of a garbage-filled array twice the size
        big = np.full((2 * X.shape[0], 2 * X.shape[1]), 1, dtype=np.uint8)
        big[::2, ::2] = X
        return big[::2, ::2]
    if how == 'negative_strides':
        return np.ascontiguousarray(X[::-1, ::-1])[::-1, ::-1]
    assert how == 'offset_view'  # a window in the middle of a larger Fortran-ordered array (non-zero offset, non-contiguous)
    big = np.full((X.shape[0] + 3, X.shape[1] + 2), 1, dtype=np.uint8, order='F')
    big[2:2 + X.shape[0], 1:1 + X.shape[1]] = X
    return big[2:2 + X.shape[0], 1:1 + X.shape[1]]


def check_matrix(numqi, out, n, X, site, what, seen=None):
    """X: symplectic (2n,2n) uint8 matrix in *some* memory layout (passed to numqi as it is). to_int_tuple(X) in range,
    independent of the memory layout, from_int_tuple(to_int_tuple(X)) == X, inverse(X) two-sided and layout-independent;
    seen: dict tuple -> packed matrix for the injectivity of to_int_tuple over the matrices of one case"""
    sp = numqi.group.spf2
    bases = ref_bases(n)
    eye = np.eye(2 * n, dtype=np.int64)
    Xc = np.ascontiguousarray(X)
    X64 = Xc.astype(np.int64)
    out.state()
    out.trans()
    try:
        t = core.pure_call(out, 'pure/to_int_tuple', sp.to_int_tuple, X)
    except Exception as e:
        _viol(out, '%s/to_int_tuple/%s' % (site, type(e).__name__), 'to_int_tuple raised %r on a symplectic matrix (%s)' % (e, what), n=n, matrix=Xc, origin=what)
        return None
    ok = isinstance(t, tuple) and len(t) == 2 * n and all(float(d) == int(d) and 0 <= int(d) < b for d, b in zip(t, bases))
    if not ok:
        _viol(out, '%s/to_int_tuple/out_of_range' % site, 'to_int_tuple(X) = %r is not a tuple inside the radix ranges %s (%s)' % (t, list(bases), what), n=n, matrix=Xc, origin=what)
        return None
    ti = tuple(int(d) for d in t)
    out.count('closure_matrices')
    out.outcome(b'X%d:' % n + pack(Xc), nontrivial=not np.array_equal(X64, eye), pre_digested=True)
    if seen is not None:
        k = pack(Xc)
        if ti in seen and seen[ti] != k:
            _viol(out, '%s/to_int_tuple/collision' % site, 'two distinct symplectic matrices get the same tuple %s' % (list(ti),), n=n, matrix=Xc, origin=what)
        seen.setdefault(ti, k)
    out.trans()
    try:
        M2 = sp.from_int_tuple(t)   # exactly the object to_int_tuple returned
        if not (valid_matrix(M2, n) and np.array_equal(M2, Xc)):
            _viol(out, '%s/from_int_tuple/not_inverse_of_to_int_tuple' % site, 'from_int_tuple(to_int_tuple(X)) != X (%s)' % what, n=n, matrix=Xc, int_tuple=list(ti), got=M2, origin=what)
    except Exception as e:
        _viol(out, '%s/from_int_tuple/%s' % (site, type(e).__name__), 'from_int_tuple raised %r on to_int_tuple(X) (%s)' % (e, what), n=n, matrix=Xc, int_tuple=list(ti), origin=what)
    out.trans()
    try:
        Xi = core.pure_call(out, 'pure/inverse', sp.inverse, X)
        Xi64 = np.asarray(Xi).astype(np.int64)
        if not (Xi64.shape == X64.shape and np.array_equal((Xi64 @ X64) % 2, eye) and np.array_equal((X64 @ Xi64) % 2, eye)):
            _viol(out, '%s/inverse/not_two_sided' % site, 'inverse(X) is not a two-sided inverse (%s)' % what, n=n, matrix=Xc, inverse=Xi, origin=what)
    except Exception as e:
        _viol(out, '%s/inverse/%s' % (site, type(e).__name__), 'inverse raised %r on a symplectic matrix (%s)' % (e, what), n=n, matrix=Xc, origin=what)
    out.trace()
    return ti


def check_layouts(numqi, out, n, Xc, ti, site, what):
    """to_int_tuple / inverse / transvection on the same values in every other memory layout == the C-contiguous call"""
    sp = numqi.group.spf2
    h = Xc[-1].copy()   # a non-zero vector (a row of an invertible matrix)
    want_inv = np.ascontiguousarray(sp.inverse(Xc))
    want_tv = ref_transvection(Xc, np.broadcast_to(h, Xc.shape))
    for how in LAYOUTS:
        Y = relayout(Xc, how)
        assert np.array_equal(Y, Xc)
        out.trans(3)
        out.count('layout_calls/' + how)
        try:
            t2 = core.pure_call(out, 'pure/to_int_tuple', sp.to_int_tuple, Y)
            inv2 = core.pure_call(out, 'pure/inverse', sp.inverse, Y)
            tv2 = core.pure_call(out, 'pure/transvection', sp.transvection, Y, h)
        except Exception as e:
            _viol(out, '%s/layout/%s' % (site, type(e).__name__), 'raised %r on a %s matrix (%s)' % (e, how, what), n=n, matrix=Xc, layout=how, origin=what)
            continue
        if not (isinstance(t2, tuple) and tuple(int(d) for d in t2) == ti):
            _viol(out, '%s/to_int_tuple/depends_on_memory_layout' % site, 'to_int_tuple of the same matrix in layout %s = %s, first call: %s (%s)' % (how, list(t2), list(ti), what), n=n, matrix=Xc, layout=how, origin=what)
        if not np.array_equal(inv2, want_inv):
            _viol(out, '%s/inverse/depends_on_memory_layout' % site, 'inverse of the same matrix in layout %s differs from the C-contiguous call (%s)' % (how, what), n=n, matrix=Xc, layout=how, origin=what)
        if not (tv2.shape == Xc.shape and np.array_equal(tv2, want_tv)):
            _viol(out, '%s/transvection/depends_on_memory_layout' % site, 'transvection of the rows of a matrix in layout %s differs from row-wise x+<x,h>h (%s)' % (how, what), n=n, matrix=Xc, h=h, layout=how, origin=what)


def closure_alphabet(numqi, out, n, G, seed):
    """the matrices of the structured tuple alphabet (those that from_int_tuple maps to a valid symplectic matrix)"""
    mats = []
    for t in big_alphabet(n, G, seed, None):
        try:
            M = numqi.group.spf2.from_int_tuple(tuple(t))
        except Exception:
            continue   # reported by the 'big' cases
        if valid_matrix(M, n):
            a, b = is_symplectic_batch(M.astype(np.int64)[None], n)
            if a[0] and b[0]:
                mats.append((t, M))
    return mats


# ------------------------------------------------------------------ case lists
def big_alphabet(n, G, seed, nsweep):
    """structured alphabet for n >= 3: list of ('struct', tuples) ; sweeps are separate cases"""
    from mc import core
    bases = ref_bases(n)
    zero = tuple(0 for _ in bases)
    mx = tuple(b - 1 for b in bases)
    ts = [zero, mx]
    for i in range(len(bases)):
        ts.append(zero[:i] + (bases[i] - 1,) + zero[i + 1:])
        ts.append(mx[:i] + (0,) + mx[i + 1:])
    rng = core.Env('x', seed).rng('C09', 'atom', n)
    for _ in range(G):
        ts.append(tuple(int(rng.integers(0, b)) for b in bases))
    seen, outl = set(), []
    for t in ts:
        if t not in seen:
            seen.add(t)
            outl.append(t)
    return outl


def n3_quick_outer():
    a3, b3 = ref_bases(3)[-2:]
    bsel = {0, b3 - 1} | {1 << k for k in range(5)}   # extremes and every single bit of the 5-bit digit b3
    return [(a, b) for b in range(b3) for a in range(a3) if (a in (0, a3 - 1) or b in bsel)]


def build_cases(tier, seed):
    thorough = tier == 'thorough'
    cases = []
    info = {}
    cases.append({'kind': 'number', 'n_max': 12})
    cases.append({'kind': 'bits', 'w_max': 16 if thorough else 12, 'w_pattern_max': 24})
    # ---- all tuples
    cases.append({'kind': 'bijection', 'n': 1})
    cases.append({'kind': 'bijection', 'n': 2})
    cases.append({'kind': 'group', 'n': 1})
    cases.append({'kind': 'group', 'n': 2})
    # ---- find_transvection: all ordered pairs
    tr_n = [1, 2, 3, 4, 5] if thorough else [1, 2, 3]
    info['find_transvection_pairs'] = {str(n): (4**n - 1)**2 for n in tr_n}
    for n in tr_n:
        N = 4**n - 1
        step = {1: 3, 2: 15, 3: 8, 4: 8, 5: 8}[n]
        for lo in range(0, N, step):
            cases.append({'kind': 'transv', 'n': n, 'lo': lo, 'hi': min(lo + step, N)})
    for n in tr_n:
        cases.append({'kind': 'tbatch', 'n': n})
    # ---- rand_SpF2 under all environment answers
    cases.append({'kind': 'rand', 'n': 1, 'prefix': [], 'kinds': ['int_tuple', 'matrix', 'int_tuple-matrix']})
    for a in range(3):
        cases.append({'kind': 'rand', 'n': 2, 'prefix': [a], 'kinds': ['int_tuple', 'matrix', 'int_tuple-matrix']})
    G = 6 if thorough else 2
    cases.append({'kind': 'randseed', 'n_max': 10, 'G': G})
    # ---- n = 3
    inner = 720
    if thorough:
        outer = [(a, b) for b in range(32) for a in range(63)]
    else:
        outer = n3_quick_outer()
    for a, b in outer:
        r = rank(ref_bases(3), (0, 0, 0, 0, a, b))
        cases.append({'kind': 'tuples', 'n': 3, 'lo': r, 'hi': r + inner})
    info['tuples'] = {'1': 6, '2': 720, '3': len(outer) * inner}
    info['n3_outer_cosets'] = '%d of 2016' % len(outer)
    # ---- structured alphabet n = 3..10
    nsweep = 8 if thorough else 6
    info['big'] = {'n': [3, 10], 'single_position_sweeps_up_to_n': nsweep, 'generic_atoms_per_n': G}
    for n in range(3, 11):
        cases.append({'kind': 'big', 'n': n, 'sub': 'struct', 'G': G})
    for n in range(3, nsweep + 1):
        bases = ref_bases(n)
        for pos in range(len(bases)):
            for bg in ('zero', 'max'):
                for lo in range(0, bases[pos], 512):
                    cases.append({'kind': 'big', 'n': n, 'sub': 'sweep', 'pos': pos, 'bg': bg, 'lo': lo, 'hi': min(lo + 512, bases[pos])})
    # ---- closure: transposes / inverses / pairwise products of the alphabet matrices, every memory layout
    cl_n = list(range(3, 9 if thorough else 7))
    info['closure'] = {'n': [cl_n[0], cl_n[-1]], 'matrices': 'M^T, inverse(M), M_i M_j mod 2 over the structured alphabet (2+4n+G tuples)', 'layouts': list(LAYOUTS)}
    for n in range(1, 7):
        cases.append({'kind': 'forms', 'n': n, 'G': G})
    info['forms'] = {'n': [1, 6], 'containers': ['list', 'int64 / int32 array', 'tuple of np.int64', 'uint8 array / tuple of np.uint8 (n <= 4)'], 'tuples': 'all for n <= 2, structured alphabet for n >= 3'}
    for n in cl_n:
        cases.append({'kind': 'closure', 'n': n, 'G': G, 'part': 'unary'})
        K = 8
        for k in range(K):
            cases.append({'kind': 'closure', 'n': n, 'G': G, 'part': 'prod', 'K': K, 'k': k})
    if thorough:
        b3 = ref_bases(3)
        for p in itertools.product(range(b3[0]), range(b3[1]), range(b3[2])):
            cases.append({'kind': 'rand', 'n': 3, 'prefix': list(p), 'kinds': ['int_tuple']})
    info['rand_SpF2_env_answers'] = {'1': 6, '2': 720, '3': 1451520 if thorough else 0}
    info['exhaustive'] = True
    info['note'] = ('exhaustive within the stated bounds: all tuples n<=2' + (' and n=3 (1 451 520)' if thorough else ' and %d outer cosets of n=3 (%d tuples)' % (len(outer), len(outer) * inner))
                    + '; all ordered pairs of non-zero vectors n<=%d; all stub answers of rand_SpF2 n<=%d; structured alphabet n=3..10' % (tr_n[-1], 3 if thorough else 2))
    return cases, info


def prepare(env):
    ref.all_symplectic(1)
    ref.all_symplectic(2)


# ------------------------------------------------------------------ rand_SpF2: depth-first over the environment's answers
def admitted(call):
    """the answers a logged random.Random call admits (semantics of the stdlib: randint inclusive, randrange exclusive)"""
    if call[0] == 'randint':
        return range(int(call[1]), int(call[2]) + 1)
    if call[0] == 'randrange':
        start, stop, step = call[1], call[2], call[3]
        return range(int(start), int(stop), int(step)) if stop is not None else range(int(start))
    return range(1 << int(call[1]))  # getrandbits(k)


def rand_leaves(numqi, n, kind, prefix, out, budget):
    """yield (answers, log, result) for every answer sequence the library's own randint calls admit, starting with prefix"""
    stack = [list(prefix)]
    while stack:
        ans = stack.pop()
        stub = seams.StubRandom(ans)
        try:
            res = numqi.random.rand_SpF2(n, return_kind=kind, seed=stub)
        except seams.StubExhausted:
            vals = list(admitted(stub.log[-1]))
            budget[0] -= len(vals)
            if budget[0] < 0:
                yield None
                return
            for v in reversed(vals):
                stack.append(ans + [v])
            continue
        except Exception as e:
            yield (ans, list(stub.log), e)
            continue
        yield (ans, list(stub.log), res)


def run_case(case, out, env):
    import numqi
    sp = numqi.group.spf2
    kind = case.get('kind')
    if kind == 'number':
        for n in range(1, case['n_max'] + 1):
            out.state()
            got = {}
            for k in ('base', 'order', 'coset'):
                out.trans()
                try:
                    got[k] = sp.get_number(n, kind=k)
                except Exception as e:
                    _viol(out, 'number/get_number/%s/%s' % (k, type(e).__name__), 'get_number(%d,%r) raised %r' % (n, k, e), n=n, kind=k)
            if 'base' in got:
                out.check(tuple(int(x) for x in got['base']) == ref_bases(n), 'number/get_number/base', 'get_number(%d,"base") = %s, expected (4^k-1, 2^(2k-1))_k = %s' % (n, got['base'], ref_bases(n)), n=n)
                out.trans()
                out.check(sp.get_number(n) == got['base'], 'number/get_number/default_kind', 'default kind is not "base"', n=n)
            if 'order' in got:
                out.check(int(got['order']) == ref.sp_order(n), 'number/get_number/order', 'get_number(%d,"order") = %s, expected 2^(n^2) prod(4^i-1) = %s' % (n, got['order'], ref.sp_order(n)), n=n)
                out.check(ref.sp_order(n) == prod(ref_bases(n)), 'number/reference/self_consistency', 'reference bases do not multiply to the group order', n=n)
            if 'coset' in got:
                out.check(tuple(int(x) for x in got['coset']) == ref_coset(n), 'number/get_number/coset', 'get_number(%d,"coset") = %s, expected %s' % (n, got['coset'], ref_coset(n)), n=n)
            # argument forms the function normalises itself (n = int(n), kind = str(kind).lower()): same answer as the plain call
            for nform, nconv in (('np_int64', np.int64), ('np_int32', np.int32), ('np_uint8', np.uint8), ('float', float)):
                for k in ('base', 'order', 'coset'):
                    for kform, kconv in (('upper', str.upper), ('title', str.title), ('np_str', np.str_)):
                        if k not in got:
                            continue
                        out.trans()
                        out.count('number_forms')
                        try:
                            # two histories: warm (the plain call above filled the lru_cache; 2.0 / np.int64(2) hash like 2 and would
                            # be answered from it) and cold (cache emptied: the form itself is computed, then the plain call follows it)
                            g3 = sp.get_number(nconv(n), kconv(k))   # warm, kind given positionally
                            clear_spf2_caches(sp)
                            g2 = sp.get_number(nconv(n), kind=kconv(k))
                            g4 = sp.get_number(n, kind=k)
                            out.check(type(g4) is type(got[k]) and g4 == got[k], 'number/get_number/forms/plain_call_after_form_differs',
                                      'get_number(%d, %r) = %s after get_number(%s(%d), %r) on an empty cache, %s before' % (n, k, g4, nform, n, kconv(k), got[k]), n=n, kind=k, n_form=nform, kind_form=kform)
                        except Exception as e:
                            if core.is_precondition_assert(e):   # the docstring promises an int and the three lower-case kinds only
                                out.count('rejected_by_precondition/number_forms')
                                continue
                            _viol(out, 'number/get_number/forms/%s' % type(e).__name__, 'get_number(%s(%d), %r) raised %r' % (nform, n, kconv(k), e), n=n, kind=k, n_form=nform, kind_form=kform)
                            continue
                        out.check(type(g2) is type(got[k]) and g2 == got[k] and g3 == got[k], 'number/get_number/forms/ne_plain_call',
                                  'get_number(%s(%d), %r) = %s, get_number(%d, %r) = %s' % (nform, n, kconv(k), g2, n, k, got[k]), n=n, kind=k, n_form=nform, kind_form=kform)
            out.outcome((n, repr(got)), nontrivial=True)
            out.trace()
        # the closed formula against brute force where brute force is possible
        for n in (1, 2):
            out.check(len(ref.all_symplectic(n)) == ref.sp_order(n), 'number/reference/brute_force_order', 'brute-force group size differs from the product formula', n=n)
        out.sample = {'kind': 'number', 'n': 3, 'base': list(ref_bases(3)), 'order': ref.sp_order(3)}
    elif kind == 'bits':
        def one(i, w):
            out.state()
            out.trans(2)
            try:
                b = sp.int_to_bitarray(i, w)
                j = sp.bitarray_to_int(ref_bits(i, w))
            except Exception as e:
                _viol(out, 'bits/int_to_bitarray/%s' % type(e).__name__, 'raised %r for i=%d width=%d' % (e, i, w), i=i, width=w)
                return
            if not (isinstance(b, np.ndarray) and b.shape == (w,) and np.array_equal(b, ref_bits(i, w))):
                _viol(out, 'bits/int_to_bitarray/not_little_endian', 'int_to_bitarray(%d,%d) = %s, expected %s' % (i, w, np.asarray(b).tolist(), ref_bits(i, w).tolist()), i=i, width=w)
            if j != i:
                _viol(out, 'bits/bitarray_to_int/wrong', 'bitarray_to_int(%s) = %s, expected %d' % (ref_bits(i, w).tolist(), j, i), i=i, width=w)
            out.outcome((w, i), nontrivial=i != 0)
        for w in range(1, case['w_max'] + 1):
            for i in range(1 << w):
                one(i, w)
        for w in range(case['w_max'] + 1, case['w_pattern_max'] + 1):
            pats = {0, (1 << w) - 1} | {1 << k for k in range(w)} | {((1 << w) - 1) ^ (1 << k) for k in range(w)}
            for i in sorted(pats):
                one(i, w)
        out.sample = {'kind': 'bits', 'example': 'int_to_bitarray(3,4) == [1,1,0,0]'}
    elif kind == 'finalize' or case.get('finalize'):
        replay_finalize(numqi, out)
    elif kind == 'bijection':
        # the whole domain of one n in one worker: per-tuple lock-step checks + the counting argument
        n = case['n']
        bases = ref_bases(n)
        tuples = [unrank(bases, r) for r in range(prod(bases))]
        res = check_tuples(numqi, out, n, tuples, 'tuples')
        seen = report_collisions(out, n, res, 'tuples')
        if all(k is not None for _, k in res):
            whole_domain_invariants(numqi, out, n, seen, len(tuples))
        out.outcome(('distinct_images', n, len(seen)), nontrivial=True)
        out.sample = {'kind': 'bijection', 'n': n, 'int_tuple': list(tuples[-1]), 'distinct_images': len(seen)}
    elif kind == 'tuples':
        n = case['n']
        bases = ref_bases(n)
        tuples = [unrank(bases, r) for r in range(case['lo'], case['hi'])]
        res = check_tuples(numqi, out, n, tuples, 'tuples')
        report_collisions(out, n, res, 'tuples')
        blob = b''.join((k if k is not None else b'\xff' * len(pack(np.zeros((2 * n, 2 * n), dtype=np.uint8)))) for _, k in res)
        out.agg = ('tuples', n, case['lo'], case['hi'], blob, sum(k is None for _, k in res))
        out.sample = {'kind': 'tuples', 'n': n, 'int_tuple': list(tuples[-1])}
    elif kind == 'group':
        n = case['n']
        bases = ref_bases(n)
        G = ref.all_symplectic(n)
        eye = np.eye(2 * n, dtype=np.int64)
        seen = {}
        for M in G:
            out.state()
            out.trans()
            try:
                t = core.pure_call(out, 'pure/to_int_tuple', sp.to_int_tuple, M.copy())
            except Exception as e:
                _viol(out, 'group/to_int_tuple/%s' % type(e).__name__, 'to_int_tuple raised %r on a symplectic matrix' % (e,), n=n, matrix=M)
                continue
            ok = isinstance(t, tuple) and len(t) == 2 * n and all(float(d) == int(d) and 0 <= int(d) < b for d, b in zip(t, bases))
            if not ok:
                _viol(out, 'group/to_int_tuple/out_of_range', 'to_int_tuple(M) = %r is not a tuple inside the radix ranges %s' % (t, list(bases)), n=n, matrix=M)
                continue
            t = tuple(int(d) for d in t)
            if t in seen:
                _viol(out, 'group/to_int_tuple/collision', 'two distinct symplectic matrices get the same tuple %s' % (list(t),), n=n, matrix=M, other=seen[t])
            seen[t] = M
            out.trans()
            try:
                M2 = sp.from_int_tuple(t)
                if not np.array_equal(M2, M):
                    _viol(out, 'group/from_int_tuple/not_inverse_of_to_int_tuple', 'from_int_tuple(to_int_tuple(M)) != M', n=n, matrix=M, int_tuple=list(t), got=M2)
            except Exception as e:
                _viol(out, 'group/from_int_tuple/%s' % type(e).__name__, 'from_int_tuple raised %r on to_int_tuple(M)' % (e,), n=n, matrix=M, int_tuple=list(t))
            out.trans()
            Mi = core.pure_call(out, 'pure/inverse', sp.inverse, M.copy()).astype(np.int64)
            Mm = M.astype(np.int64)
            if not (Mi.shape == Mm.shape and np.array_equal((Mi @ Mm) % 2, eye) and np.array_equal((Mm @ Mi) % 2, eye)):
                _viol(out, 'group/inverse/not_two_sided', 'inverse(M) is not a two-sided inverse', n=n, matrix=M, inverse=Mi)
            check_layouts(numqi, out, n, np.ascontiguousarray(M, dtype=np.uint8), t, 'group', 'element of the brute-force group')
            out.outcome((n, t), nontrivial=not np.array_equal(Mm, eye))
            out.trace()
        out.check(len(seen) == len(G) or out.n_violations > 0, 'group/to_int_tuple/count', 'number of distinct tuples %d != group size %d' % (len(seen), len(G)), n=n)
        out.sample = {'kind': 'group', 'n': n, 'matrix': G[-1].tolist()}
    elif kind == 'transv':
        n = case['n']
        V = all_vectors(n)[1:]
        V64 = V.astype(np.int64)
        leaves = {}
        for i0 in range(case['lo'], case['hi']):
            v0 = V[i0]
            H = np.zeros((len(V), 2, 2 * n), dtype=np.int64)
            okrow = np.zeros(len(V), dtype=bool)
            for i1 in range(len(V)):
                v1 = V[i1]
                out.state()
                out.trans()
                leaf = transv_subbranch(v0, v1, n)
                leaves[leaf] = leaves.get(leaf, 0) + 1
                try:
                    h = core.pure_call(out, 'pure/find_transvection', sp.find_transvection, v0.copy(), v1.copy())
                except Exception as e:
                    br = transv_branch(v0, v1, n)
                    _viol(out, 'transv/find_transvection/%s/%s' % (type(e).__name__, br), 'find_transvection raised %r on two non-zero vectors' % (e,), n=n, v0=v0, v1=v1)
                    continue
                if not (isinstance(h, np.ndarray) and h.shape == (2, 2 * n) and h.dtype == np.uint8 and int(h.max()) <= 1):
                    _viol(out, 'transv/find_transvection/bad_output', 'result is not a binary uint8 (2,2n) array: %r' % (h,), n=n, v0=v0, v1=v1)
                    continue
                H[i1] = h
                okrow[i1] = True
                key = (n << 50) | int.from_bytes(pack(h), 'big')
                out.outcome(key, nontrivial=bool(h.any()), pre_digested=True)
                # numqi's own transvection must agree with the reference application
                out.trans()
                y_impl = core.pure_call(out, 'pure/transvection', sp.transvection, v0.copy(), h[0], h[1])
                y_ref = ref_transvection(ref_transvection(v0, h[0]), h[1])
                if not (y_impl.shape == y_ref.shape and np.array_equal(y_impl, y_ref)):
                    _viol(out, 'transv/transvection/ne_reference', 'transvection(x,h0,h1) != x+<x,h0>h0 followed by +<.,h1>h1', n=n, x=v0, h0=h[0], h1=h[1], got=y_impl, expected=y_ref)
                out.trace()
            y = ref_transvection(ref_transvection(np.broadcast_to(V64[i0], V64.shape), H[:, 0]), H[:, 1])
            bad = np.nonzero(okrow & np.any(y != V64, axis=1))[0]
            for i1 in bad[:10]:
                br = transv_branch(v0, V[i1], n)
                _viol(out, 'transv/find_transvection/not_mapped/%s' % br, 'the returned transvections map v0 to %s instead of v1 (Lemma 2 case: %s)' % (y[i1].tolist(), br),
                              n=n, v0=v0, v1=V[i1], h0=H[i1, 0], h1=H[i1, 1])
            if len(bad) > 10:
                out.count('transv_not_mapped_more', len(bad) - 10)
        for leaf, c in leaves.items():
            out.count('transv_leaf/n%d/%s' % (n, leaf), c)
        out.agg = ('transv', n, case['lo'], case['hi'], leaves)
        out.sample = {'kind': 'transv', 'n': n, 'v0': V[case['lo']].tolist(), 'v1': V[-1].tolist()}
    elif kind == 'tbatch':
        n = case['n']
        X = all_vectors(n)
        N = len(X)
        X3 = X.reshape(2, N // 2, 2 * n)
        for h in X:
            out.state()
            out.trans(2)
            want = ref_transvection(X, np.broadcast_to(h, X.shape))
            try:
                got2 = core.pure_call(out, 'pure/transvection', sp.transvection, X.copy(), h.copy())
                got3 = core.pure_call(out, 'pure/transvection', sp.transvection, X3.copy(), h.copy())
            except Exception as e:
                _viol(out, 'tbatch/transvection/%s' % type(e).__name__, 'batched transvection raised %r' % (e,), n=n, h=h)
                continue
            if not (got2.shape == X.shape and np.array_equal(got2, want)):
                _viol(out, 'tbatch/transvection/batched_ne_rowwise', 'transvection on a stack of vectors differs from row-wise x+<x,h>h', n=n, h=h)
            if not (got3.shape == X3.shape and np.array_equal(got3.reshape(N, 2 * n), want)):
                _viol(out, 'tbatch/transvection/batched3d_ne_rowwise', 'transvection on a 3-D batch differs from row-wise x+<x,h>h', n=n, h=h)
            out.outcome((n, pack(want)), nontrivial=bool(h.any()))
            out.trace()
        out.sample = {'kind': 'tbatch', 'n': n}
    elif kind == 'rand':
        n = case['n']
        bases = ref_bases(n)
        prefix = case['prefix']
        want_leaves = [tuple(prefix) + t for t in itertools.product(*[range(b) for b in bases[len(prefix):]])]
        want_ranges = [range(b) for b in bases]  # any generator call is fine as long as it admits exactly the digits 0..b-1
        per_kind = {}
        for rk in case['kinds']:
            leaves = {}
            order = []
            budget = [20 * len(want_leaves) + 1000]
            for leaf in rand_leaves(numqi, n, rk, prefix, out, budget):
                if leaf is None:
                    _viol(out, 'rand/rand_SpF2/range_mismatch', 'the ranges requested from the generator admit far more answers than there are tuples (n=%d)' % n, n=n, return_kind=rk, prefix=prefix)
                    break
                ans, log, res = leaf
                out.state()
                out.trans()
                if isinstance(res, Exception):
                    _viol(out, 'rand/rand_SpF2/%s' % type(res).__name__, 'rand_SpF2 raised %r for generator answers %s admitted by its own randint ranges' % (res, ans), n=n, return_kind=rk, answers=ans, calls=[list(c) for c in log])
                    continue
                if [admitted(c) for c in log] != want_ranges:
                    _viol(out, 'rand/rand_SpF2/range_mismatch', 'digits are requested by the calls %s, the radix ranges are 0..b-1 for b in %s' % ([list(c) for c in log], list(bases)),
                                  n=n, return_kind=rk, answers=ans)
                leaves[tuple(ans)] = res
                order.append(tuple(ans))
            per_kind[rk] = leaves
            if order != want_leaves and out.n_violations == 0:
                _viol(out, 'rand/rand_SpF2/not_all_tuples', 'the answer sequences admitted by the generator calls are not exactly the mixed-radix tuples (%d vs %d)' % (len(order), len(want_leaves)),
                              n=n, return_kind=rk, prefix=prefix, first_reached=[list(x) for x in order[:3]])
        ident = pack(np.eye(2 * n, dtype=np.uint8))
        if 'int_tuple' in per_kind:
            for ans, res in per_kind['int_tuple'].items():
                if not (isinstance(res, tuple) and tuple(int(x) for x in res) == ans):
                    _viol(out, 'rand/rand_SpF2/tuple_not_answers', "return_kind='int_tuple' returned %r for generator answers %s" % (res, list(ans)), n=n, answers=list(ans))
                out.outcome((n, 'int_tuple', ans), nontrivial=any(ans))
                out.trace()
        if 'matrix' in per_kind:
            mats = []
            for ans, M in per_kind['matrix'].items():
                if not valid_matrix(M, n):
                    _viol(out, 'rand/rand_SpF2/bad_output', "return_kind='matrix' did not return a binary uint8 (2n,2n) matrix", n=n, answers=list(ans), result=M)
                    continue
                mats.append((ans, M))
                out.outcome(b'R%d:' % n + pack(M), nontrivial=pack(M) != ident, pre_digested=True)
                out.trans()
                try:
                    t2 = core.pure_call(out, 'pure/to_int_tuple', sp.to_int_tuple, M.copy())
                except Exception as e:
                    _viol(out, 'rand/to_int_tuple/%s' % type(e).__name__, 'to_int_tuple raised %r on the matrix rand_SpF2 returned' % (e,), n=n, answers=list(ans), matrix=M)
                    continue
                if tuple(int(x) for x in t2) != ans:
                    _viol(out, 'rand/rand_SpF2/matrix_not_from_tuple', 'to_int_tuple(rand_SpF2 matrix) = %s, generator answers were %s' % (list(t2), list(ans)), n=n, answers=list(ans), matrix=M)
                both = per_kind.get('int_tuple-matrix', {}).get(ans)
                if both is not None:
                    okb = isinstance(both, tuple) and len(both) == 2 and tuple(int(x) for x in both[0]) == ans and np.array_equal(both[1], M)
                    if not okb:
                        _viol(out, 'rand/rand_SpF2/kinds_inconsistent', "return_kind='int_tuple-matrix' disagrees with 'int_tuple' / 'matrix' for the same generator answers", n=n, answers=list(ans), matrix=M, both=[list(both[0]), both[1]] if isinstance(both, tuple) and len(both) == 2 else repr(both))
                out.trace()
            if mats:
                Ms = np.stack([m.astype(np.int64) for _, m in mats])
                a, b = is_symplectic_batch(Ms, n)
                for i in np.nonzero(~(a & b))[0][:5]:
                    _viol(out, 'rand/rand_SpF2/not_symplectic', 'rand_SpF2 returned a non-symplectic matrix for generator answers %s' % (list(mats[i][0]),), n=n, answers=list(mats[i][0]), matrix=mats[i][1])
                keys = {}
                for ans, M in mats:
                    k = pack(M)
                    if k in keys:
                        _viol(out, 'rand/rand_SpF2/collision', 'two admitted answer sequences give the same matrix', n=n, answers=list(ans), other=list(keys[k]), matrix=M)
                    keys[k] = ans
        out.sample = {'kind': 'rand', 'n': n, 'answers': list(want_leaves[-1]), 'digit_ranges': [[0, b - 1] for b in bases]}
    elif kind == 'randseed':
        seeds = [0, 1] + [int(x) for x in env.rng('C09', 'seed').integers(0, 2**31, size=case['G'])]
        for n in range(1, case['n_max'] + 1):
            bases = ref_bases(n)
            for s in seeds:
                out.state()
                out.trans(3)
                try:
                    t = numqi.random.rand_SpF2(n, return_kind='int_tuple', seed=s)
                    M = numqi.random.rand_SpF2(n, return_kind='matrix', seed=s)
                    t2, M2 = numqi.random.rand_SpF2(n, return_kind='int_tuple-matrix', seed=s)
                except Exception as e:
                    _viol(out, 'randseed/rand_SpF2/%s' % type(e).__name__, 'rand_SpF2(%d, seed=%d) raised %r' % (n, s, e), n=n, seed=s)
                    continue
                if not (len(t) == 2 * n and all(0 <= int(d) < b for d, b in zip(t, bases))):
                    _viol(out, 'randseed/rand_SpF2/digit_out_of_range', 'rand_SpF2(%d,"int_tuple",seed=%d) = %s leaves the radix ranges %s' % (n, s, list(t), list(bases)), n=n, seed=s)
                    continue
                if not (tuple(t) == tuple(t2) and np.array_equal(M, M2)):
                    _viol(out, 'randseed/rand_SpF2/kinds_inconsistent', 'the three return kinds disagree for the same integer seed', n=n, seed=s, int_tuple=list(t), int_tuple2=list(t2))
                res = check_tuples(numqi, out, n, [tuple(int(d) for d in t)], 'randseed')
                if res[0][1] is not None and res[0][1] != pack(M):
                    _viol(out, 'randseed/rand_SpF2/matrix_not_from_tuple', 'matrix returned for a seed is not from_int_tuple(tuple returned for the same seed)', n=n, seed=s, int_tuple=list(t), matrix=M)
        out.sample = {'kind': 'randseed', 'seeds': seeds}
    elif kind == 'big':
        n = case['n']
        bases = ref_bases(n)
        if case['sub'] == 'struct':
            tuples = big_alphabet(n, case['G'], env.seed, None)
        else:
            bgv = tuple(0 for _ in bases) if case['bg'] == 'zero' else tuple(b - 1 for b in bases)
            p = case['pos']
            tuples = [bgv[:p] + (v,) + bgv[p + 1:] for v in range(case['lo'], case['hi'])]
        res = check_tuples(numqi, out, n, tuples, 'big')
        report_collisions(out, n, res, 'big')
        out.agg = ('big', n, [(t, k) for t, k in res if k is not None])
        out.sample = {'kind': 'big', 'n': n, 'int_tuple': list(tuples[-1])}
    elif kind == 'forms':
        # container / digit types of the tuple: list, numpy integer array, tuple of numpy scalars (np.uint8 where the digits fit)
        n = case['n']
        bases = ref_bases(n)
        tuples = [unrank(bases, r) for r in range(prod(bases))] if n <= 2 else big_alphabet(n, case['G'], env.seed, None)
        forms = [('list', list), ('int64_array', lambda t: np.array(t, dtype=np.int64)), ('tuple_of_int64', lambda t: tuple(np.int64(d) for d in t)),
                 ('int32_array', lambda t: np.array(t, dtype=np.int32))]
        if max(bases) <= 256:   # every digit (and a_n + 1 <= 4^n - 1) is representable
            forms += [('uint8_array', lambda t: np.array(t, dtype=np.uint8)), ('tuple_of_uint8', lambda t: tuple(np.uint8(d) for d in t))]
        for t in tuples:
            out.state()
            out.trans()
            try:
                M = sp.from_int_tuple(tuple(t))
            except Exception:
                continue   # reported by check_tuples
            for name, conv in forms:
                arg = conv(t)
                out.trans()
                out.count('forms/' + name)
                try:
                    M2 = core.pure_call(out, 'pure/from_int_tuple', sp.from_int_tuple, arg)
                except Exception as e:
                    if core.is_precondition_assert(e):   # the docstring promises tuple[int] only
                        out.count('rejected_by_precondition/forms/' + name)
                        continue
                    _viol(out, 'forms/from_int_tuple/%s/%s' % (name, type(e).__name__), 'from_int_tuple raised %r on the digits %s given as %s' % (e, list(t), name), n=n, int_tuple=list(t), form=name)
                    continue
                if not (valid_matrix(M2, n) and np.array_equal(M2, M)):
                    _viol(out, 'forms/from_int_tuple/%s/ne_tuple_of_int' % name, 'from_int_tuple(digits as %s) != from_int_tuple(tuple of int) for %s' % (name, list(t)), n=n, int_tuple=list(t), form=name, got=M2, expected=M)
            out.outcome(b'F%d:' % n + pack(M), nontrivial=any(t), pre_digested=True)
            out.trace()
        out.sample = {'kind': 'forms', 'n': n, 'forms': [x[0] for x in forms], 'int_tuple': list(tuples[-1])}
    elif kind == 'closure':
        # matrices that are NOT literal from_int_tuple outputs of the alphabet: transposes, inverses, products; each handed to
        # numqi in a non-default memory layout (M.T is a Fortran-ordered view, inverse() returns whatever np.roll produced)
        n = case['n']
        mats = closure_alphabet(numqi, out, n, case['G'], env.seed)
        seen = {}
        if case['part'] == 'unary':
            for t, M in mats:
                what = 'transpose of from_int_tuple(%s)' % (list(t),)
                ti = check_matrix(numqi, out, n, M.T, 'closure', what, seen)
                if ti is not None:
                    check_layouts(numqi, out, n, np.ascontiguousarray(M.T), ti, 'closure', what)
                what = 'inverse() of from_int_tuple(%s), passed on as returned' % (list(t),)
                try:
                    Mi = sp.inverse(M)
                except Exception:
                    continue   # reported by check_tuples
                ti = check_matrix(numqi, out, n, Mi, 'closure', what, seen)
                if ti is not None:
                    check_layouts(numqi, out, n, np.ascontiguousarray(Mi), ti, 'closure', what)
                # find_transvection on non-contiguous 1-D views: the columns of M (stride 2n) against contiguous copies
                cols = M.T
                for i in range(2 * n):
                    j = (i + 1) % (2 * n)
                    out.trans(2)
                    try:
                        h_view = core.pure_call(out, 'pure/find_transvection', sp.find_transvection, M[:, i], M[:, j])
                        h_copy = sp.find_transvection(M[:, i].copy(), M[:, j].copy())
                    except Exception as e:
                        _viol(out, 'closure/find_transvection/%s' % type(e).__name__, 'find_transvection raised %r on two columns of a symplectic matrix' % (e,), n=n, matrix=M, i=i, j=j)
                        continue
                    y = ref_transvection(ref_transvection(cols[i], h_view[0]), h_view[1])
                    if not (np.array_equal(h_view, h_copy) and np.array_equal(y, cols[j])):
                        _viol(out, 'closure/find_transvection/depends_on_memory_layout', 'find_transvection on strided column views differs from the call on contiguous copies or does not map column i to column j',
                              n=n, matrix=M, i=i, j=j, got=h_view, contiguous=h_copy)
        else:
            K, k = case['K'], case['k']
            for i in range(k, len(mats), K):
                Mi64 = mats[i][1].astype(np.int64)
                for j in range(len(mats)):
                    Xc = ((Mi64 @ mats[j][1].astype(np.int64)) % 2).astype(np.uint8)
                    how = LAYOUTS[(i + j) % len(LAYOUTS)]
                    what = 'product from_int_tuple(%s) . from_int_tuple(%s) mod 2, layout %s' % (list(mats[i][0]), list(mats[j][0]), how)
                    ti = check_matrix(numqi, out, n, relayout(Xc, how), 'closure', what, seen)
                    if ti is not None:
                        check_layouts(numqi, out, n, Xc, ti, 'closure', what)
        out.sample = {'kind': 'closure', 'n': n, 'part': case['part'], 'alphabet_matrices': len(mats)}
    else:
        raise ValueError(kind)


# ------------------------------------------------------------------ cross-case invariants
def finalize(aggs, out, env):
    """collisions *between* work units (n = 3 tuple cosets; structured alphabet of each n) and the count for n = 3.
    A violation found here is recorded by the engine with case = {'finalize': True}; run_case re-checks such a record
    from the literal tuples in its replay file (replay_finalize)."""
    import numqi
    sp = numqi.group.spf2
    by_n = {}
    big = {}
    tleaf = {}
    for _, a in aggs:
        if a[0] == 'transv':
            d = tleaf.setdefault(a[1], {'rows': 0, 'leaves': {}})
            d['rows'] += a[3] - a[2]
            for leaf, c in a[4].items():
                d['leaves'][leaf] = d['leaves'].get(leaf, 0) + c
        elif a[0] == 'tuples':
            by_n.setdefault(a[1], []).append(a[2:])
        elif a[0] == 'big':
            big.setdefault(a[1], []).extend(a[2])
    # vacuity guard: the complete set of ordered pairs of one n reaches every leaf of the Lemma-2 case distinction
    # (labels computed from the inputs alone; what numqi answers on each pair is judged in the cases)
    for n in sorted(tleaf):
        d = tleaf[n]
        if d['rows'] != 4**n - 1:
            out.count('finalize_incomplete_transv_n%d' % n)
            continue
        out.state()
        missing = [x for x in TRANSV_LEAVES[n] if d['leaves'].get(x, 0) == 0]
        unknown = [x for x in d['leaves'] if x not in TRANSV_LEAVES[n]]
        out.check(not missing and not unknown, 'transv/find_transvection/lemma2_leaf_not_reached', 'the enumeration of all ordered pairs for n=%d never reached the Lemma-2 leaves %s (unknown labels: %s)' % (n, missing, unknown), n=n, reached=d['leaves'])
        out.check(sum(d['leaves'].values()) == (4**n - 1)**2, 'transv/enumeration/pair_count', '%d of %d ordered pairs were enumerated' % (sum(d['leaves'].values()), (4**n - 1)**2), n=n)
        out.outcome(('transv_leaves', n, tuple(sorted(d['leaves'].items()))), nontrivial=True)
    expected_total = {3: (1451520 if env.tier == 'thorough' else len(n3_quick_outer()) * 720)}
    for n in sorted(by_n):
        bases = ref_bases(n)
        nb = len(pack(np.zeros((2 * n, 2 * n), dtype=np.uint8)))
        parts = sorted(by_n[n])
        ranks = np.concatenate([np.arange(lo, hi, dtype=np.int64) for lo, hi, _, _ in parts])
        keys = np.frombuffer(b''.join(p[2] for p in parts), dtype=np.uint8).reshape(-1, nb)
        n_failed = sum(p[3] for p in parts)
        assert len(ranks) == len(keys)
        out.state(len(keys))
        # pairwise distinct: sort the packed rows
        assert nb <= 8
        k64 = np.zeros((len(keys), 8), dtype=np.uint8)
        k64[:, 8 - nb:] = keys
        order = np.argsort(k64.view('>u8').reshape(-1), kind='stable')
        ks = keys[order]
        same = np.nonzero(np.all(ks[1:] == ks[:-1], axis=1))[0]
        n_distinct = len(keys) - len(same)
        n_rep = 0
        if n_failed == 0:
            for j in same:
                r0, r1 = int(ranks[order[j]]), int(ranks[order[j + 1]])
                if any(lo <= r0 < hi and lo <= r1 < hi for lo, hi, _, _ in parts):
                    continue  # inside one work unit: already reported by that case (replayable there)
                t0, t1 = unrank(bases, r0), unrank(bases, r1)
                M = np.unpackbits(ks[j])[:4 * n * n].reshape(2 * n, 2 * n)
                _viol(out, 'tuples/from_int_tuple/collision_across_cosets', 'distinct tuples %s and %s give the same matrix' % (list(t0), list(t1)), n=n, int_tuple_a=list(t0), int_tuple_b=list(t1), matrix=M)
                n_rep += 1
                if n_rep >= 5:
                    break
        complete = len(keys) == expected_total.get(n)
        if not complete:
            out.count('finalize_incomplete_n%d' % n)
        out.outcome(('distinct_images', n, n_distinct), nontrivial=True)
        if complete and len(keys) == prod(bases) and n_failed == 0:
            out.trans()
            order_impl = int(sp.get_number(n, kind='order'))
            if not (n_distinct == order_impl == ref.sp_order(n)):
                _viol(out, 'tuples/from_int_tuple/count_ne_order', 'number of distinct images %d (from %d tuples), get_number(n,"order") = %d, 2^(n^2) prod(4^i-1) = %d' % (n_distinct, len(keys), order_impl, ref.sp_order(n)), n=n)
            out.trace()
    for n in sorted(big):
        seen = {}
        for t, k in big[n]:
            t = tuple(t)
            if k in seen and seen[k] != t:
                _viol(out, 'big/from_int_tuple/collision', 'distinct tuples %s and %s give the same matrix' % (list(seen[k]), list(t)), n=n, int_tuple_a=list(seen[k]), int_tuple_b=list(t))
            seen.setdefault(k, t)
        out.state(len(seen))
        out.outcome(('distinct_images_big', n, len(seen)), nontrivial=True)


def replay_finalize(numqi, out):
    """`--replay` of a record produced by finalize: the engine hands run_case only {'finalize': True}, so the literal
    inputs are taken from the replay records themselves (/verif/replays/C09/*.json with case.finalize) and re-executed."""
    import glob
    import json
    import os
    from mc import core
    sp = numqi.group.spf2
    for path in sorted(glob.glob(os.path.join(core.VERIF_DIR, 'replays', PROPERTY, '*.json'))):
        try:
            with open(path) as fid:
                rec = json.load(fid)
        except Exception:
            continue
        if not (isinstance(rec.get('case'), dict) and rec['case'].get('finalize')):
            continue
        d = rec.get('detail', {})
        n = int(d.get('n', 0))
        out.state()
        if 'collision' in rec['key'] and 'int_tuple_a' in d:
            out.trans(2)
            ta, tb = tuple(d['int_tuple_a']), tuple(d['int_tuple_b'])
            Ma, Mb = sp.from_int_tuple(ta), sp.from_int_tuple(tb)
            if ta != tb and np.array_equal(Ma, Mb):
                _viol(out, rec['key'], 'distinct tuples %s and %s give the same matrix' % (list(ta), list(tb)), n=n, int_tuple_a=list(ta), int_tuple_b=list(tb), matrix=Ma)
        elif rec['key'].endswith('count_ne_order') and n >= 1:
            # all images symplectic and pairwise distinct was established by the run; what can still differ is the order
            out.trans()
            order_impl = int(sp.get_number(n, kind='order'))
            if order_impl != ref.sp_order(n):
                _viol(out, rec['key'], 'get_number(%d,"order") = %d, 2^(n^2) prod(4^i-1) = %d' % (n, order_impl, ref.sp_order(n)), n=n)
