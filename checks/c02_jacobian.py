"""C02 - trivialisations are locally onto: full-rank differential (DESIGN.md section 4 / C02).

Mode P.  The product  {functional map, nn.Module} x map x dim x rank x field x method/option x backend  is enumerated completely up
to the dimension bound; in every configuration the differential is taken at every point of a small finite atom list
(one seed-independent chirp point, G generic atoms bounded away from the chart singularities, G normal draws):

  torch backend : J = torch.autograd.functional.jacobian of the real view of the output (float64)
  numpy backend : J = central finite differences (two step sizes, Richardson error estimate) - the numpy branches cannot be
                  differentiated by autograd, but they are separate code (every map has an `else: #numpy` branch)
  nn.Module     : J of forward() with respect to all parameter tensors (batch None and batch 3: per-sample diagonal blocks,
                  cross-sample blocks must vanish)

The numerical rank of J (singular values, dead band between the rounding floor and the decision threshold) must equal the
dimension of the manifold, taken from a table written from the mathematics (`manifold_dim`), not from numqi's parameter counts.
The parameter counts of the module constructors are compared with the table as well (count >= dimension, == for minimal charts).
"""
import numpy as np

from mc import core
from checks import c01_manifold as c01

PROPERTY = 'C02'
LEVEL = 'model_checking'
RULE = ('state = (map or nn.Module class, dim, rank, field, method/options, backend, atom): the configuration product up to the dimension '
        'bound x the finite atom list is enumerated completely; transition = one Jacobian of the real numqi map (torch autograd, or '
        'numpy central differences) whose numerical rank is compared with the manifold dimension table; '
        'non-trivial = observed rank > 0 (distinct (configuration, rank, rounded singular values))')
ASSUMPTIONS = [
    'torch.autograd.functional.jacobian (float64) is the differential of the torch branch; the hand-written backward of PSDMatrixSqrtm is trusted here (it is the subject of C04); its agreement with the finite-difference Jacobian of the numpy branch is measured and counted (autograd_vs_numpy_fd_mismatch), not used as a verdict',
    'numerical rank: singular values above hi=1e4*lo count, below lo=1e3*eps*kappa*sigma_1 are zero, a singular value inside (lo,hi] makes the atom undecided (counted, never a violation); kappa is the independent conditioning estimate of the configuration (C01 table)',
    'generic point statement only: the rank is decided at the listed atoms (see atom_list: one deterministic chirp vector, G drawn vectors with |theta_i| in [0.4,1.2], G normal draws); nothing is claimed on the measure-zero set where a chart degenerates',
    'so-exp / so-cayley Stiefel charts parametrise "the first r columns of SO(d)/SU(d)": dimension min(2dr-r^2, d^2-1) in the complex case (documented construction)',
    'the phase-free complex Euler chart and the complex choleskyL chart (documented "minimum parameters") parametrise the Stiefel manifold modulo column phases: dimension 2dr-r^2-r (= their parameter count, as the property states for minimal charts); their composition with the Kraus->Choi map has no manifold of its own and is not checked',
    'a supposed-zero singular value that sticks out of the rounding noise by a factor > 1e2 (and > 1e2*eps*sigma_1) makes the atom undecided: it is a true direction near a coordinate singularity, not a zero',
    'SeparableDensityMatrix is not covered (no closed-form dimension of the secant variety in the property statement); QuantumChannel modules are bounded by the size of the underlying Stiefel chart (<= 6 quick, <= 9 thorough)',
]

EPS = np.finfo(np.float64).eps
C = 1e3          # safety constant of DESIGN 3.2
GAP = 1e4        # dead band hi/lo (DESIGN C02: gap >= 1e4)
KAPPA_CAP = 4e5  # hi = C*eps*kappa*GAP must stay below 1e-3*sigma_1: kappa <= 1e-3/(1e3*2.2e-16*1e4) = 4.5e5. For the orthonormalising maps
                 # kappa = cond(frame)^2, so the spread of the non-zero singular values of J is <= cond ~ 6e2 << 1/(1e2*tau) ~ 1e5 (finite differences)
FD_H = 1e-4      # finite-difference step (theta is O(1))
FD_GUARD = 1e2   # finite differences: non-zero singular values must exceed FD_GUARD * error bound


# ------------------------------------------------------------------------------------------------ the oracle: manifold dimensions
def manifold_dim(name, c):
    """real dimension of the set a trivialisation is documented to parametrise - from the mathematics, not from numqi"""
    d = c['dim']
    r = c.get('rank')
    real = c['field'] == 'real'
    if name in ('positive_real', 'open_interval'):
        return d                                   # open subset of R^d
    if name == 'ball':
        return d if real else 2 * d                # open ball of R^d / C^d
    if name == 'sphere':
        return d - 1 if real else 2 * d - 1        # S^(d-1) / S^(2d-1)
    if name == 'simplex':
        return d - 1
    if name == 'trace1psd':
        # rank-r PSD: X = L L^dagger, L in K^(d x r) modulo O(r)/U(r); minus one for the trace
        return (d * r - r * (r - 1) // 2 - 1) if real else (2 * d * r - r * r - 1)
    if name == 'symmetric':
        n = d * (d + 1) // 2 if real else d * d
        return n - (1 if c['trace0'] else 0) - (1 if c['norm1'] else 0)
    if name == 'special_orthogonal':
        return d * (d - 1) // 2 if real else d * d - 1   # complex Cayley: a (d^2-1)-dimensional subset of U(d)
    if name == 'stiefel':
        st = (d * r - r * (r + 1) // 2) if real else (2 * d * r - r * r)
        m = c['method']
        if m == 'euler' and (not real) and (not c.get('phase', False)):
            return st - r                          # modulo the r column phases
        if m == 'choleskyL' and not real:
            # frame [unit lower-triangular ; free block] orthonormalised by the inverse Cholesky factor (upper triangular,
            # positive diagonal): the diagonal of the top block stays real positive, i.e. one phase per column is fixed.
            # Documented as the "minimum parameters" chart: Stiefel modulo column phases, like the phase-free Euler chart.
            return st - r
        if m in ('so-exp', 'so-cayley') and not real:
            return min(st, d * d - 1)              # first r columns of SU(d): the global phase is lost when r == d
        return st
    if name == 'sym_to_psd':
        return (d * (d + 1) // 2 - 1) if real else (d * d - 1)   # full-rank trace-one PSD matrices
    raise ValueError(name)


def is_minimal_chart(name, c):
    """charts whose parameter count must EQUAL the dimension (documented / constructed as minimal)"""
    if name in ('positive_real', 'open_interval', 'ball', 'special_orthogonal'):
        return True
    if name == 'sphere':
        return c['method'] == 'coordinate'
    if name == 'symmetric':
        return not c['norm1']
    if name == 'stiefel':
        return c['method'] in ('choleskyL', 'euler')
    return False


# ------------------------------------------------------------------------------------------------ atoms
def atom_list(n, env, G, wide, *tag):
    """finite list of parameter points in R^n: [(label, theta)]. Only the 'g*' / 'n*' atoms depend on VERIF_SEED.

    family A ("away"): |theta_i| in [0.4, 1.2] with a sign - generic, and bounded away from theta_i = 0 where every angle
        chart (spherical coordinates, Euler-Hurwitz) and the squared-sphere simplex chart have their coordinate singularity;
        one deterministic member (quadratic chirp) + G drawn ones. Used for both backends.
    family N (wide=True, autograd only): N(0,1) draws (the quantifier of the property). They may come close to a coordinate
        singularity, which autograd resolves down to ~1e-9*sigma_1 but finite differences (~1e-7) do not.
    The second scale 0.3*N(0,1) planned in DESIGN C02 is NOT used: it concentrates the angles of the coordinate / Euler charts at
    their singularity theta=0, where sigma_min ~ prod sin(theta_i) (squared for Choi outputs) falls below the rounding floor and a
    rank verdict is unsound (false alarm observed on the repaired tree, see rank_autograd); family A replaces it.
    """
    k = np.arange(n)
    # quadratic chirps: no linear (Kronecker) structure, so that frames / ensembles reshaped from theta are not of low rank
    frac = np.abs(np.sin(1.0 + 1.7 * k + 0.3 * k * k))
    sign = np.where(np.sin(2.3 + 1.1 * k + 0.7 * k * k) >= 0, 1.0, -1.0)
    atoms = [('det', sign * (0.4 + 0.8 * frac))]
    rng = env.rng('C02', *tag)
    for g in range(G):
        atoms.append(('g%d' % g, rng.choice([-1.0, 1.0], size=n) * (0.4 + 0.8 * rng.random(n))))
    if wide:
        for g in range(G):
            atoms.append(('n%d' % g, rng.normal(size=n)))
    return atoms


def real_view(x):
    x = np.asarray(x)
    if np.iscomplexobj(x):
        return np.concatenate([x.real.reshape(-1), x.imag.reshape(-1)])
    return x.reshape(-1).astype(np.float64)


# ------------------------------------------------------------------------------------------------ rank decisions
def rank_autograd(J, kappa, fscale):
    """numerical rank of an autograd Jacobian. Returns (rank or None if undecided, singular values, reason).

    Rounding model (DESIGN 3.2): every entry of J carries an error <= c*eps*kappa*|J|, so singular values that are exactly
    zero in exact arithmetic are observed below lo = C*eps*kappa*sigma_1 (C=1e3). A singular value is counted as non-zero only
    above hi = GAP*lo (GAP=1e4, the gap requirement of the design); one inside (lo,hi] cannot be attributed -> undecided.
    A Jacobian whose largest singular value is below C*eps*kappa*max(1,|f|) is rounding noise of a constant map: rank 0.
    """
    if J.size == 0:
        return 0, np.zeros(0), 'empty'
    s = np.linalg.svd(J, compute_uv=False)
    if not np.isfinite(s).all():
        return None, s, 'not_finite'
    if s[0] <= C * EPS * kappa * max(1.0, fscale):
        return 0, s, 'zero'
    lo = C * EPS * kappa * s[0]
    hi = GAP * lo
    if hi > 1e-3 * s[0]:
        return None, s, 'ill_conditioned'
    if ((s > lo) & (s <= hi)).any():
        return None, s, 'dead_band'
    r = int((s > hi).sum())
    # relative gap criterion *below* the threshold as well: genuine zeros are rounding noise and lie within a factor 1e2 of each
    # other, whereas a true tiny singular value (near a coordinate singularity of an angle chart) sticks out of the noise by
    # orders of magnitude. Observed: QuantumChannel(euler, choi) at 0.3*N(0,1): ..., 3.5e-7, 6.6e-13 | 1.6e-16, 9.5e-17, ...
    # -> the 6.6e-13 is a direction of the manifold, not a zero: the atom is undecided, not rank deficient.
    if r + 1 < len(s) and s[r] > 1e2 * max(s[r + 1], EPS * s[0]):
        return None, s, 'isolated_small_singular_value'
    return r, s, 'ok'


def fd_jacobian(fun, th):
    """central differences of a batched numpy function at step h and 2h. Returns (J_h, error bound per entry).

    J_h - J' = h^2/6 f''' + O(h^4) and J_2h - J' = 4 h^2/6 f''' + ..., so |J_2h - J_h| = 3 x truncation error of J_h: the bound
    2*max|J_2h-J_h| covers it with a factor 6. Rounding: each difference quotient carries <= eps*|f|/h; with C=1e3: C*eps*max|f|/h.
    """
    n = len(th)
    E = np.eye(n)
    P = np.concatenate([th + FD_H * E, th - FD_H * E, th + 2 * FD_H * E, th - 2 * FD_H * E], axis=0)
    Y = fun(P)
    Y = np.stack([real_view(y) for y in Y])  # (4n, m)
    J1 = ((Y[:n] - Y[n:2 * n]) / (2 * FD_H)).T
    J2 = ((Y[2 * n:3 * n] - Y[3 * n:]) / (4 * FD_H)).T
    fmax = float(np.abs(Y).max()) if Y.size else 0.0
    err = 2 * float(np.abs(J2 - J1).max()) + C * EPS * max(1.0, fmax) / FD_H
    return J1, err, np.isfinite(Y).all()


def rank_fd(J, err):
    """Weyl: |sigma_k(J) - sigma_k(J')| <= ||E||_2 <= sqrt(m n) * max|E_ij| =: tau. Zero singular values are observed <= tau;
    a singular value is counted as non-zero only above FD_GUARD*tau; inside (tau, FD_GUARD*tau] -> undecided."""
    s = np.linalg.svd(J, compute_uv=False)
    if not np.isfinite(s).all():
        return None, s, 'not_finite'
    tau = np.sqrt(J.size) * err
    if FD_GUARD * tau > 1e-2 * max(s[0], tau):
        if s[0] <= tau:
            return 0, s, 'zero'
        return None, s, 'ill_conditioned'
    if ((s > tau) & (s <= FD_GUARD * tau)).any():
        return None, s, 'dead_band'
    return int((s > FD_GUARD * tau).sum()), s, 'ok'


def verdict(out, site, kk, label, got, expect, s, what_cfg, **detail):
    """compare an observed rank with the table; three failure classes with distinct keys"""
    if got == expect:
        return True
    if got == 0:
        cls = 'constant_map'
        msg = 'the map is constant around theta (Jacobian = 0), manifold dimension %d' % expect
    elif got < expect:
        cls = 'rank_deficient'
        msg = 'Jacobian rank %d < manifold dimension %d: image confined to a lower-dimensional subset' % (got, expect)
    else:
        cls = 'rank_exceeds_manifold_dimension'
        msg = 'Jacobian rank %d > manifold dimension %d: image is not contained in the manifold' % (got, expect)
    out.violation('%s/%s/%s' % (site, cls, kk), '%s at atom %s: %s' % (what_cfg, label, msg),
                  rank=got, expected=expect, singular_values=np.asarray(s)[:40], **detail)
    return False


# ------------------------------------------------------------------------------------------------ cases
def build_cases(tier, seed):
    dims = [2, 3, 4] if tier == 'quick' else [2, 3, 4, 5]
    cases = []
    for name, spec in c01.SPECS.items():
        dlist = dims if name != 'sym_to_psd' else (dims + [6])  # 6: the N1>5 (sparse eigensolver) branch
        for dim in dlist:
            ranks = range(1, dim + 1) if spec.has_rank else [None]
            for rank in ranks:
                for field in spec.fields:
                    for ex in spec.extra:
                        for backend in ('torch', 'numpy'):
                            c = {'kind': 'func', 'map': name, 'dim': dim, 'field': field, 'backend': backend, 'prec': 64}
                            if rank is not None:
                                c['rank'] = rank
                            c.update(ex)
                            cases.append(c)
    mdims = [2, 3] if tier == 'quick' else [2, 3, 4]
    for c in c01.module_configs(mdims):
        if c['prec'] != 64:
            continue
        if c['cls'] == 'SeparableDensityMatrix':
            continue  # see NOT COVERED in the module docstring of run_module
        if c['cls'] == 'QuantumChannel':
            cr = c['dim'] * c['dim_out'] if c['choi_rank'] is None else c['choi_rank']
            if cr * c['dim_out'] > (6 if tier == 'quick' else 9):
                continue  # the underlying Stiefel(cr*dim_out, dim_in) chart is kept inside the dimension bound of the functional maps (+1)
            if c['return_kind'] == 'choi' and ((c['method'] == 'euler' and not c['phase']) or c['method'] == 'choleskyL'):
                continue  # Stiefel modulo column phases does not descend to Choi operators: no manifold to compare with
        if tier == 'quick' and c['batch'] is not None and c['cls'] == 'QuantumChannel' and cr * c['dim_out'] > 4:
            continue  # quick: batch 3 for the small channel charts only (thorough: everywhere)
        cases.append(dict(c))
    cases.sort(key=lambda c: (c['dim'], c.get('rank') or 0, c['kind']))
    G = 2 if tier == 'quick' else 6
    info = {'dims_functional': dims, 'dims_modules': mdims, 'sym_to_psd_extra_dim': 6, 'generic_atoms_per_family': G,
            'atom_families': {'away': '1 deterministic + G drawn, |theta_i| in [0.4,1.2] (both backends)',
                              'normal': 'G x N(0,1) (autograd only)', 'init': "the module's own initial theta (modules only)"},
            'atoms_per_config': {'numpy': 1 + G, 'torch': 1 + 2 * G, 'module': 2 + 2 * G},
            'backends': ['torch autograd', 'numpy central differences (h=1e-4 and 2e-4)'],
            'module_batch_sizes': [None, 3], 'quantum_channel_stiefel_dim_bound': 6 if tier == 'quick' else 9,
            'dead_band': {'autograd': 'zero below lo=1e3*eps*kappa*sigma_1, non-zero above 1e4*lo',
                          'finite_differences': 'zero below tau=sqrt(mn)*(2|J_2h-J_h|+1e3*eps*|f|/h), non-zero above 1e2*tau'},
            'exhaustive': True,
            'note': 'the configuration product up to the dimension bound x the atom list is enumerated completely; '
                    'the verdict at each configuration is for the listed atoms (generic-point statement)'}
    return cases, info


def key_opts(c, keys=('method', 'field', 'phase', 'trace0', 'norm1', 'return_kind', 'weight')):
    return ','.join('%s=%s' % (k, c[k]) for k in keys if k in c)


# ------------------------------------------------------------------------------------------------ functional maps
def run_func(case, out, env):
    import numqi
    import torch
    c = case
    name = c['map']
    spec = c01.SPECS[name]
    n = spec.nparam(c)
    expect = manifold_dim(name, c)
    site = 'func/%s' % name
    ck = c01.cfg_key(c)
    kk = key_opts(c) + ',backend=%s' % c['backend']
    cfg = '%s [%s backend=%s]' % (name, ck, c['backend'])
    G = 2 if env.tier == 'quick' else 6
    # the atoms depend on (map, options, dim, rank, field) but NOT on the backend: both backends see the same points
    atoms = atom_list(n, env, G, c['backend'] == 'torch', name, ck)

    # parameter count versus dimension (table is independent of the count formula)
    if n < expect:
        out.violation('%s/too_few_parameters/%s' % (site, key_opts(c)), '%s: %d parameters cannot cover a manifold of dimension %d' % (cfg, n, expect), config=c)
    if is_minimal_chart(name, c) and n != expect:
        out.violation('%s/chart_not_minimal/%s' % (site, key_opts(c)), '%s: minimal chart with %d parameters, manifold dimension %d' % (cfg, n, expect), config=c)

    def fail(cls, what, **kw):
        out.violation('%s/%s/%s' % (site, cls, kk), '%s: %s' % (cfg, what), config=c, **kw)

    ranks_seen = []
    for label, th in atoms:
        kap = float(spec.kappa(th[None, :], c)[0])
        if not np.isfinite(kap) or kap > KAPPA_CAP:
            out.count('skipped_ill_conditioned')
            continue
        out.state()
        if c['backend'] == 'torch':
            tt = torch.tensor(th, dtype=torch.float64)
            fs = [1.0]

            def f(t):
                y = spec.call(numqi, t, c)
                if y.is_complex():
                    y = torch.cat([y.real.reshape(-1), y.imag.reshape(-1)])
                else:
                    y = y.reshape(-1)
                fs[0] = float(y.detach().abs().max()) if y.numel() else 0.0
                return y
            try:
                with np.errstate(all='ignore'):
                    J = torch.autograd.functional.jacobian(f, tt).detach().numpy()
                out.trans()
            except Exception as e:
                if core.is_precondition_assert(e):
                    out.count('rejected_by_precondition')
                    continue
                fail('jacobian_raises_%s' % type(e).__name__, 'autograd Jacobian raised %r at theta=%s' % (e, th.tolist()), theta=th)
                break
            if not np.isfinite(J).all():
                fail('jacobian_not_finite', 'NaN/Inf in the autograd Jacobian at atom %s theta=%s' % (label, th.tolist()), theta=th)
                continue
            got, s, why = rank_autograd(J, kap, fs[0])
        else:
            def fnp(P):
                with np.errstate(all='ignore'):
                    return c01.to_np64(spec.call(numqi, P, c))
            try:
                J, err, finite = fd_jacobian(fnp, th)
                out.trans()
            except Exception as e:
                if core.is_precondition_assert(e):
                    out.count('rejected_by_precondition')
                    continue
                fail('call_raises_%s' % type(e).__name__, 'batched numpy call raised %r around theta=%s' % (e, th.tolist()), theta=th)
                break
            if not finite:
                fail('not_finite', 'NaN/Inf in the output around atom %s theta=%s' % (label, th.tolist()), theta=th)
                continue
            got, s, why = rank_fd(J, err)
            # trusted-base monitor: numpy finite differences versus torch autograd of the same map (not a verdict)
            try:
                Jt = torch.autograd.functional.jacobian(lambda t: _flat_real(torch, spec.call(numqi, t, c)), torch.tensor(th, dtype=torch.float64)).numpy()
                if Jt.shape == J.shape and np.abs(Jt - J).max() > err:
                    out.count('autograd_vs_numpy_fd_mismatch')
            except Exception:
                out.count('autograd_vs_numpy_fd_not_comparable')
        if got is None:
            out.count('undecided[%s]' % why)
            continue
        ranks_seen.append(got)
        out.outcome((name, ck, c['backend'], got, np.round(s / max(s[0], 1e-300), 3) if len(s) else s), nontrivial=got > 0)
        verdict(out, site, kk, label, got, expect, s, cfg, config=c, theta=th)
    if not ranks_seen:
        out.count('no_decided_atom[%s,%s]' % (name, kk))
    out.trace()
    out.sample = {'config': c, 'parameters': n, 'manifold_dimension': expect, 'ranks_observed': ranks_seen, 'first_atom': atoms[0][1].tolist()}


def _flat_real(torch, y):
    if y.is_complex():
        return torch.cat([y.real.reshape(-1), y.imag.reshape(-1)])
    return y.reshape(-1)


# ------------------------------------------------------------------------------------------------ nn.Module wrappers
def module_expectation(c, mod):
    """(dimension per sample, kappa spec name/config or None, spec name for minimality) for a module configuration"""
    cls = c['cls']
    fc = dict(c)
    if cls == 'PositiveReal':
        return 1, None, ('positive_real', dict(fc, dim=1))
    if cls == 'OpenInterval':
        return 1, None, ('open_interval', dict(fc, dim=1))
    if cls == 'Ball':
        return manifold_dim('ball', fc), ('ball', fc), ('ball', fc)
    if cls in ('Sphere', 'quantum_state'):
        return manifold_dim('sphere', fc), ('sphere', fc), ('sphere', fc)
    if cls == 'SymmetricMatrix':
        return manifold_dim('symmetric', fc), ('symmetric', fc), ('symmetric', fc)
    if cls in ('SpecialOrthogonal', 'quantum_gate'):
        return manifold_dim('special_orthogonal', fc), ('special_orthogonal', fc), ('special_orthogonal', fc)
    if cls in ('Trace1PSD', 'density_matrix'):
        return manifold_dim('trace1psd', fc), ('trace1psd', fc), ('trace1psd', fc)
    if cls == 'Stiefel':
        return manifold_dim('stiefel', fc), ('stiefel', fc), ('stiefel', fc)
    if cls == 'DiscreteProbability':
        return manifold_dim('simplex', fc), ('simplex', fc), ('simplex', fc)  # a positive diagonal weight does not change the rank
    if cls == 'QuantumChannel':
        din, dout = c['dim'], c['dim_out']
        cr = din * dout if c['choi_rank'] is None else c['choi_rank']
        sc = {'method': c['method'], 'dim': cr * dout, 'rank': din, 'field': 'complex', 'phase': c['phase']}
        if c['return_kind'] == 'kraus':
            # Kraus operators = the (cr*dout) x din isometry reshaped: dimension of the Stiefel chart
            return manifold_dim('stiefel', sc), ('stiefel', sc), None
        # Choi operators of rank <= cr: PSD of rank cr on C^(dout*din) (2*N*cr - cr^2, N = dout*din) with Tr_out = 1 (din^2 conditions)
        return 2 * dout * din * cr - cr * cr - din * din, ('stiefel', sc), None
    raise ValueError(cls)


def run_module(case, out, env):
    """NOT COVERED: SeparableDensityMatrix (the set of mixtures of num_cha product states is a secant variety whose dimension
    is not part of the property statement and is not given by a closed formula that could serve as an independent table)."""
    import numqi
    import torch
    c = case
    site = 'module/%s' % c['cls']
    kk = key_opts(c)
    skip = {'kind', 'prec'}
    ck = ','.join('%s=%s' % (k, c[k]) for k in sorted(c) if k not in skip)
    cfg = '%s(%s)' % (c['cls'], ck)

    def fail(cls_, what, **kw):
        out.violation('%s/%s/%s' % (site, cls_, kk), '%s: %s' % (cfg, what), config=c, **kw)

    torch.manual_seed(0)  # the constructors draw their initial theta from the global torch generator
    try:
        mod, fref, extra = c01.build_module(numqi, c)
    except Exception as e:
        out.state()
        out.trans()
        if core.is_precondition_assert(e):
            out.count('rejected_by_precondition')
            return
        fail('constructor_raises_%s' % type(e).__name__, 'constructor raised %r' % (e,))
        return
    names = [k for k, _ in mod.named_parameters()]
    params = [p for _, p in mod.named_parameters()]
    bs = c['batch']
    nb = 1 if bs is None else bs
    ntot = sum(p.numel() for p in params)
    nper = ntot // nb
    expect, kspec, mspec = module_expectation(c, mod)
    # constructor's parameter count against the table
    if nper < expect:
        fail('too_few_parameters', 'constructor allocates %d parameters per sample, manifold dimension %d' % (nper, expect))
    if mspec is not None and is_minimal_chart(*mspec) and nper != expect:
        fail('chart_not_minimal', 'minimal chart, but the constructor allocates %d parameters per sample for dimension %d' % (nper, expect))
    G = 2 if env.tier == 'quick' else 6
    atoms = atom_list(nper * nb, env, G, True, c['cls'], ck)
    atoms = [('init', None)] + atoms
    ranks_seen = []
    for label, th in atoms:
        if th is None:
            th = np.concatenate([p.detach().numpy().reshape(nb, -1) for p in params], axis=1).reshape(-1)
        rows = th.reshape(nb, nper)
        # distribute each sample's parameter vector over the parameter tensors, sample-major (as in C01)
        tens = []
        off = 0
        for p in params:
            m = p.numel() // nb
            tens.append(torch.tensor(rows[:, off:off + m].reshape(tuple(p.shape)), dtype=p.dtype))
            off += m
        if kspec is not None:
            kap = float(np.max(c01.SPECS[kspec[0]].kappa(rows, kspec[1])))
        else:
            kap = 1.0
        if not np.isfinite(kap) or kap > KAPPA_CAP:
            out.count('skipped_ill_conditioned')
            continue
        out.state()
        fs = [1.0]

        def f(*ts):
            y = torch.func.functional_call(mod, dict(zip(names, ts)), ())
            y = _flat_real(torch, y.reshape(nb, -1)) if nb == 1 else _batch_real(torch, y, nb)
            fs[0] = float(y.detach().abs().max())
            return y
        try:
            with np.errstate(all='ignore'):
                Js = torch.autograd.functional.jacobian(f, tuple(tens))
            out.trans()
        except Exception as e:
            fail('jacobian_raises_%s' % type(e).__name__, 'Jacobian of forward() raised %r (atom %s)' % (e, label), theta=th)
            break
        # Js[k]: (nb*m_out, *param_shape) -> (nb, m_out, nb, n_k)
        blocks = [j.detach().numpy().reshape(nb, -1, nb, p.numel() // nb) for j, p in zip(Js, params)]
        Jfull = np.concatenate(blocks, axis=3)  # (nb, m, nb, nper)
        if not np.isfinite(Jfull).all():
            fail('jacobian_not_finite', 'NaN/Inf in the Jacobian of forward() at atom %s' % label, theta=th)
            continue
        for i in range(nb):
            for j in range(nb):
                if i != j and np.abs(Jfull[i, :, j, :]).max() > 0:
                    fail('samples_coupled', 'output of batch sample %d depends on the parameters of sample %d (atom %s)' % (i, j, label), theta=th)
                    break
        for i in range(nb):
            got, s, why = rank_autograd(Jfull[i, :, i, :], kap, fs[0])
            if got is None:
                out.count('undecided[%s]' % why)
                continue
            ranks_seen.append(got)
            out.outcome((c['cls'], ck, got, np.round(s / max(s[0], 1e-300), 3) if len(s) else s), nontrivial=got > 0)
            if not verdict(out, site, kk, label + ('' if bs is None else '[sample %d]' % i), got, expect, s, cfg, config=c, theta=rows[i]):
                break
    if not ranks_seen:
        out.count('no_decided_atom[%s,%s]' % (c['cls'], kk))
    out.trace()
    out.sample = {'config': c, 'parameters_per_sample': nper, 'manifold_dimension': expect, 'ranks_observed': ranks_seen[:8]}


def _batch_real(torch, y, nb):
    y = y.reshape(nb, -1)
    if y.is_complex():
        y = torch.cat([y.real, y.imag], dim=1)
    return y.reshape(-1)


def run_case(case, out, env):
    if case['kind'] == 'func':
        run_func(case, out, env)
    else:
        run_module(case, out, env)
