"""C02 - trivialisations are locally onto: full-rank differential (DESIGN.md section 4 / C02).

Mode P.  The product  {functional map, nn.Module} x map x dim x rank x field x method/option x backend  is enumerated completely up
to the dimension bound; in every configuration the differential is taken at every point of a small finite atom list
(one seed-independent chirp point, G generic atoms bounded away from the chart singularities, G normal draws):

  torch backend : J = torch.autograd.functional.jacobian of the real view of the output (float64)
  numpy backend : J = central finite differences (two step sizes, Richardson error estimate) - the numpy branches cannot be
                  differentiated by autograd, but they are separate code (every map has an `else: #numpy` branch)
  nn.Module     : J of forward() with respect to all parameter tensors (batch None and batch 3: per-sample diagonal blocks,
                  cross-sample blocks must vanish)

The numerical rank of J (singular values, dead band between the rounding floor and the decision threshold) must equal the
dimension of the manifold, taken from a table written from the mathematics (`manifold_dim`), not from numqi's parameter counts.
The parameter counts of the module constructors are compared with the table as well (count >= dimension, == for minimal charts);
for the float32 / complex64 constructors this comparison is the whole check (no single-precision Jacobians).
Further coordinates: rank=None (Trace1PSD / density_matrix / to_trace1_psd_*: table entry of rank = dim), batch_size=1,
QuantumChannel(dim_in=1). Two module families have no table entry and are compared with a reference differential instead:
SeparableDensityMatrix (the harness's own mixture formula; default num_cha: table entry (dA*dB)^2-1, proved per configuration by
the reference rank) and QuantumChannel(choi) over a chart of Stiefel modulo column phases (chain rule through the harness's own
Kraus->Choi differential applied to the Jacobian of the kraus twin of the same module).
"""
import numpy as np

from mc import core
from checks import c01_manifold as c01

PROPERTY = 'C02'
LEVEL = 'model_checking'
RULE = ('state = (map or nn.Module class, dim, rank, field, method/options, backend, atom): the configuration product up to the dimension '
        'bound x the finite atom list is enumerated completely; transition = one Jacobian of the real numqi map (torch autograd, or '
        'numpy central differences) whose numerical rank is compared with the manifold dimension table (SeparableDensityMatrix with explicit '
        'num_cha and QuantumChannel(choi) over a phase-free chart: with the rank of a reference differential at the same point); the configuration '
        'product includes rank=None, batch_size in {None,1,3}, QuantumChannel(dim_in=1) and the 32-bit constructors (parameter count versus table only); '
        'non-trivial = observed rank > 0 (distinct (configuration, rank, rounded singular values))')
ASSUMPTIONS = [
    'torch.autograd.functional.jacobian (float64) is the differential of the torch branch; the hand-written backward of PSDMatrixSqrtm is trusted here (it is the subject of C04); its agreement with the finite-difference Jacobian of the numpy branch is measured and counted (autograd_vs_numpy_fd_mismatch), not used as a verdict',
    'numerical rank: singular values above hi=1e4*lo count, below lo=1e3*eps*kappa*sigma_1 are zero, a singular value inside (lo,hi] makes the atom undecided (counted, never a violation); kappa is the independent conditioning estimate of the configuration (C01 table)',
    'generic point statement only: the rank is decided at the listed atoms (see atom_list: one deterministic chirp vector, G drawn vectors with |theta_i| in [0.4,1.2], G normal draws); nothing is claimed on the measure-zero set where a chart degenerates',
    'so-exp / so-cayley Stiefel charts parametrise "the first r columns of SO(d)/SU(d)": dimension min(2dr-r^2, d^2-1) in the complex case (documented construction)',
    'the phase-free complex Euler chart and the complex choleskyL chart (documented "minimum parameters") parametrise the Stiefel manifold modulo column phases: dimension 2dr-r^2-r (= their parameter count, as the property states for minimal charts); their composition with the Kraus->Choi map has no manifold of its own: there rank(d choi/d theta) must equal rank(D x d kraus/d theta) with D the harness\'s own differential of K -> sum_k K_k (x) conj(K_k) at the Kraus operators the kraus twin of the module returns (chain rule; the kraus twin itself is checked against the table)',
    'a supposed-zero singular value that sticks out of the rounding noise by a factor > 1e2 (and > 1e2*eps*sigma_1) makes the atom undecided: it is a true direction near a coordinate singularity, not a zero',
    'SeparableDensityMatrix, default num_cha: expected rank (dA*dB)^2-1 (the separable set contains a ball around the maximally mixed state, so it is full-dimensional in the trace-one Hermitian operators; that the library\'s number of product terms reaches it follows from lower semicontinuity of the rank once the harness\'s own mixture formula has rank (dA*dB)^2-1 at one point - counted as table_entry_proved_by_reference_rank); explicit num_cha: no closed-form dimension of the secant variety is assumed, the rank must equal the rank of the harness\'s own mixture formula (softmax weights, normalised complex vectors, as in C01) at the same parameters; the number of product terms of the default is read off the parameter count',
    'QuantumChannel modules are bounded by the size of the underlying Stiefel chart (<= 6 quick, <= 9 thorough); more Kraus operators than dim_in*dim_out (only dim_in=dim_out=1) cannot raise the Choi rank: table entry with min(choi_rank, dim_in*dim_out)',
    'float32 / complex64: no Jacobian verdicts (finite differences and singular-value gaps of single-precision Jacobians are not decidable with the dead band of this check: C*eps32*GAP > 1); the 32-bit module constructors are covered by the parameter-count comparison only (count >= dimension, == for minimal charts), the 32-bit functional maps not at all',
    'rank=None is passed to numqi as documented; table, conditioning estimate and expected theta length are those of rank = dim; a precondition rejection of rank=None is a violation because the same theta is accepted with rank = dim',
]

EPS = np.finfo(np.float64).eps
C = 1e3          # safety constant of DESIGN 3.2
GAP = 1e4        # dead band hi/lo (DESIGN C02: gap >= 1e4)
KAPPA_CAP = 4e5  # hi = C*eps*kappa*GAP must stay below 1e-3*sigma_1: kappa <= 1e-3/(1e3*2.2e-16*1e4) = 4.5e5. For the orthonormalising maps
                 # kappa = cond(frame)^2, so the spread of the non-zero singular values of J is <= cond ~ 6e2 << 1/(1e2*tau) ~ 1e5 (finite differences)
FD_H = 1e-4      # finite-difference step (theta is O(1))
FD_GUARD = 1e2   # finite differences: non-zero singular values must exceed FD_GUARD * error bound


# ------------------------------------------------------------------------------------------------ the oracle: manifold dimensions
def manifold_dim(name, c):
    """real dimension of the set a trivialisation is documented to parametrise - from the mathematics, not from numqi"""
    d = c['dim']
    r = c.get('rank')
    real = c['field'] == 'real'
    if name in ('positive_real', 'open_interval'):
        return d                                   # open subset of R^d
    if name == 'ball':
        return d if real else 2 * d                # open ball of R^d / C^d
    if name == 'sphere':
        return d - 1 if real else 2 * d - 1        # S^(d-1) / S^(2d-1)
    if name == 'simplex':
        return d - 1
    if name == 'trace1psd':
        # rank-r PSD: X = L L^dagger, L in K^(d x r) modulo O(r)/U(r); minus one for the trace
        return (d * r - r * (r - 1) // 2 - 1) if real else (2 * d * r - r * r - 1)
    if name == 'symmetric':
        n = d * (d + 1) // 2 if real else d * d
        return n - (1 if c['trace0'] else 0) - (1 if c['norm1'] else 0)
    if name == 'special_orthogonal':
        return d * (d - 1) // 2 if real else d * d - 1   # complex Cayley: a (d^2-1)-dimensional subset of U(d)
    if name == 'stiefel':
        st = (d * r - r * (r + 1) // 2) if real else (2 * d * r - r * r)
        m = c['method']
        if m == 'euler' and (not real) and (not c.get('phase', False)):
            return st - r                          # modulo the r column phases
        if m == 'choleskyL' and not real:
            # frame [unit lower-triangular ; free block] orthonormalised by the inverse Cholesky factor (upper triangular,
            # positive diagonal): the diagonal of the top block stays real positive, i.e. one phase per column is fixed.
            # Documented as the "minimum parameters" chart: Stiefel modulo column phases, like the phase-free Euler chart.
            return st - r
        if m in ('so-exp', 'so-cayley') and not real:
            return min(st, d * d - 1)              # first r columns of SU(d): the global phase is lost when r == d
        return st
    if name == 'sym_to_psd':
        return (d * (d + 1) // 2 - 1) if real else (d * d - 1)   # full-rank trace-one PSD matrices
    raise ValueError(name)


def phase_free_choi(c):
    """QuantumChannel(return_kind='choi') over a chart of Stiefel modulo column phases: the Choi image has no manifold of its own"""
    return c['cls'] == 'QuantumChannel' and c['return_kind'] == 'choi' and ((c['method'] == 'euler' and not c['phase']) or c['method'] == 'choleskyL')


def is_minimal_chart(name, c):
    """charts whose parameter count must EQUAL the dimension (documented / constructed as minimal)"""
    if name in ('positive_real', 'open_interval', 'ball', 'special_orthogonal'):
        return True
    if name == 'sphere':
        return c['method'] == 'coordinate'
    if name == 'symmetric':
        return not c['norm1']
    if name == 'stiefel':
        return c['method'] in ('choleskyL', 'euler')
    return False


# ------------------------------------------------------------------------------------------------ atoms
def atom_list(n, env, G, wide, *tag):
    """finite list of parameter points in R^n: [(label, theta)]. Only the 'g*' / 'n*' atoms depend on VERIF_SEED.

    family A ("away"): |theta_i| in [0.4, 1.2] with a sign - generic, and bounded away from theta_i = 0 where every angle
        chart (spherical coordinates, Euler-Hurwitz) and the squared-sphere simplex chart have their coordinate singularity;
        one deterministic member (quadratic chirp) + G drawn ones. Used for both backends.
    family N (wide=True, autograd only): N(0,1) draws (the quantifier of the property). They may come close to a coordinate
        singularity, which autograd resolves down to ~1e-9*sigma_1 but finite differences (~1e-7) do not.
    The second scale 0.3*N(0,1) planned in DESIGN C02 is NOT used: it concentrates the angles of the coordinate / Euler charts at
    their singularity theta=0, where sigma_min ~ prod sin(theta_i) (squared for Choi outputs) falls below the rounding floor and a
    rank verdict is unsound (false alarm observed on the repaired tree, see rank_autograd); family A replaces it.
    """
    k = np.arange(n)
    # quadratic chirps: no linear (Kronecker) structure, so that frames / ensembles reshaped from theta are not of low rank
    frac = np.abs(np.sin(1.0 + 1.7 * k + 0.3 * k * k))
    sign = np.where(np.sin(2.3 + 1.1 * k + 0.7 * k * k) >= 0, 1.0, -1.0)
    atoms = [('det', sign * (0.4 + 0.8 * frac))]
    rng = env.rng('C02', *tag)
    for g in range(G):
        atoms.append(('g%d' % g, rng.choice([-1.0, 1.0], size=n) * (0.4 + 0.8 * rng.random(n))))
    if wide:
        for g in range(G):
            atoms.append(('n%d' % g, rng.normal(size=n)))
    return atoms


def real_view(x):
    x = np.asarray(x)
    if np.iscomplexobj(x):
        return np.concatenate([x.real.reshape(-1), x.imag.reshape(-1)])
    return x.reshape(-1).astype(np.float64)


# ------------------------------------------------------------------------------------------------ rank decisions
def rank_autograd(J, kappa, fscale):
    """numerical rank of an autograd Jacobian. Returns (rank or None if undecided, singular values, reason).

    Rounding model (DESIGN 3.2): every entry of J carries an error <= c*eps*kappa*|J|, so singular values that are exactly
    zero in exact arithmetic are observed below lo = C*eps*kappa*sigma_1 (C=1e3). A singular value is counted as non-zero only
    above hi = GAP*lo (GAP=1e4, the gap requirement of the design); one inside (lo,hi] cannot be attributed -> undecided.
    A Jacobian whose largest singular value is below C*eps*kappa*max(1,|f|) is rounding noise of a constant map: rank 0.
    """
    if J.size == 0:
        return 0, np.zeros(0), 'empty'
    s = np.linalg.svd(J, compute_uv=False)
    if not np.isfinite(s).all():
        return None, s, 'not_finite'
    if s[0] <= C * EPS * kappa * max(1.0, fscale):
        return 0, s, 'zero'
    lo = C * EPS * kappa * s[0]
    hi = GAP * lo
    if hi > 1e-3 * s[0]:
        return None, s, 'ill_conditioned'
    if ((s > lo) & (s <= hi)).any():
        return None, s, 'dead_band'
    r = int((s > hi).sum())
    # relative gap criterion *below* the threshold as well: genuine zeros are rounding noise and lie within a factor 1e2 of each
    # other, whereas a true tiny singular value (near a coordinate singularity of an angle chart) sticks out of the noise by
    # orders of magnitude. Observed: QuantumChannel(euler, choi) at 0.3*N(0,1): ..., 3.5e-7, 6.6e-13 | 1.6e-16, 9.5e-17, ...
    # -> the 6.6e-13 is a direction of the manifold, not a zero: the atom is undecided, not rank deficient.
    if r + 1 < len(s) and s[r] > 1e2 * max(s[r + 1], EPS * s[0]):
        return None, s, 'isolated_small_singular_value'
    return r, s, 'ok'


def fd_jacobian(fun, th):
    """central differences of a batched numpy function at step h and 2h. Returns (J_h, error bound per entry).

    J_h - J' = h^2/6 f''' + O(h^4) and J_2h - J' = 4 h^2/6 f''' + ..., so |J_2h - J_h| = 3 x truncation error of J_h: the bound
    2*max|J_2h-J_h| covers it with a factor 6. Rounding: each difference quotient carries <= eps*|f|/h; with C=1e3: C*eps*max|f|/h.
    """
    n = len(th)
    E = np.eye(n)
    P = np.concatenate([th + FD_H * E, th - FD_H * E, th + 2 * FD_H * E, th - 2 * FD_H * E], axis=0)
    Y = fun(P)
    Y = np.stack([real_view(y) for y in Y])  # (4n, m)
    J1 = ((Y[:n] - Y[n:2 * n]) / (2 * FD_H)).T
    J2 = ((Y[2 * n:3 * n] - Y[3 * n:]) / (4 * FD_H)).T
    fmax = float(np.abs(Y).max()) if Y.size else 0.0
    err = 2 * float(np.abs(J2 - J1).max()) + C * EPS * max(1.0, fmax) / FD_H
    return J1, err, np.isfinite(Y).all()


def rank_fd(J, err):
    """Weyl: |sigma_k(J) - sigma_k(J')| <= ||E||_2 <= sqrt(m n) * max|E_ij| =: tau. Zero singular values are observed <= tau;
    a singular value is counted as non-zero only above FD_GUARD*tau; inside (tau, FD_GUARD*tau] -> undecided."""
    s = np.linalg.svd(J, compute_uv=False)
    if not np.isfinite(s).all():
        return None, s, 'not_finite'
    tau = np.sqrt(J.size) * err
    if FD_GUARD * tau > 1e-2 * max(s[0], tau):
        if s[0] <= tau:
            return 0, s, 'zero'
        return None, s, 'ill_conditioned'
    if ((s > tau) & (s <= FD_GUARD * tau)).any():
        return None, s, 'dead_band'
    return int((s > FD_GUARD * tau).sum()), s, 'ok'


def verdict(out, site, kk, label, got, expect, s, what_cfg, **detail):
    """compare an observed rank with the table; three failure classes with distinct keys"""
    if got == expect:
        return True
    if got == 0:
        cls = 'constant_map'
        msg = 'the map is constant around theta (Jacobian = 0), manifold dimension %d' % expect
    elif got < expect:
        cls = 'rank_deficient'
        msg = 'Jacobian rank %d < manifold dimension %d: image confined to a lower-dimensional subset' % (got, expect)
    else:
        cls = 'rank_exceeds_manifold_dimension'
        msg = 'Jacobian rank %d > manifold dimension %d: image is not contained in the manifold' % (got, expect)
    out.violation('%s/%s/%s' % (site, cls, kk), '%s at atom %s: %s' % (what_cfg, label, msg),
                  rank=got, expected=expect, singular_values=np.asarray(s)[:40], **detail)
    return False


# ------------------------------------------------------------------------------------------------ cases
def module_config_list(mdims):
    """C01's module configurations (both precisions, batch None / 3) plus the coordinates C01 does not enumerate:
    QuantumChannel(dim_in=1) (state preparations), rank=None (Trace1PSD / density_matrix default: full rank), batch_size=1."""
    base = [dict(c) for c in c01.module_configs(mdims)]
    base += [dict(c) for c in c01.module_configs([1]) if c['cls'] == 'QuantumChannel']  # dim_in=1 (every other class asserts dim>=2)
    base += [dict(c, rank=None) for c in base if c['cls'] in ('Trace1PSD', 'density_matrix') and c.get('rank') == c['dim']]
    base += [dict(c, batch=1) for c in base if c['batch'] is None]
    seen, ret = set(), []
    for c in base:  # C01 is free to grow the same coordinates: no configuration twice
        k = repr(sorted(c.items(), key=lambda kv: kv[0]))
        if k not in seen:
            seen.add(k)
            ret.append(c)
    return ret


def build_cases(tier, seed):
    dims = [2, 3, 4] if tier == 'quick' else [2, 3, 4, 5]
    cases = []
    for name, spec in c01.SPECS.items():
        dlist = dims if name != 'sym_to_psd' else (dims + [6])  # 6: the N1>5 (sparse eigensolver) branch
        for dim in dlist:
            ranks = range(1, dim + 1) if spec.has_rank else [None]
            for rank in ranks:
                for field in spec.fields:
                    for ex in spec.extra:
                        for backend in ('torch', 'numpy'):
                            c = {'kind': 'func', 'map': name, 'dim': dim, 'field': field, 'backend': backend, 'prec': 64}
                            if rank is not None:
                                c['rank'] = rank
                            c.update(ex)
                            cases.append(c)
                            if name == 'trace1psd' and rank == dim:
                                cases.append(dict(c, rank_none=True))  # the documented default rank=None (= dim) is passed to numqi
    mdims = [2, 3] if tier == 'quick' else [2, 3, 4]
    bound = 6 if tier == 'quick' else 9
    for c in module_config_list(mdims):
        if c['prec'] != 64:
            # 32-bit constructors: parameter-count comparison only (finite differences / rank gaps are not decidable in single
            # precision), no size bound needed: nothing but the constructor runs
            cases.append(dict(c, count_only=True))
            continue
        if c['cls'] == 'QuantumChannel':
            cr = c['dim'] * c['dim_out'] if c['choi_rank'] is None else c['choi_rank']
            if cr * c['dim_out'] > bound:
                continue  # the underlying Stiefel(cr*dim_out, dim_in) chart is kept inside the dimension bound of the functional maps (+1)
            if tier == 'quick' and c['batch'] is not None and cr * c['dim_out'] > 4:
                continue  # quick: batches for the small channel charts only (thorough: everywhere)
        if tier == 'quick' and c['batch'] == 1 and c['dim'] > 2:
            continue  # quick: batch_size=1 at the smallest dimension (and every dim_in=1 channel); thorough: everywhere
        if tier == 'quick' and c['cls'] == 'SeparableDensityMatrix' and c['batch'] is not None and c['dim'] * c['dimB'] > 4:
            continue  # quick: batched mixtures for two qubits only (2x3, 3x3 unbatched; thorough: everywhere)
        cases.append(dict(c))
    cases.sort(key=lambda c: (c['dim'], c.get('rank') or 0, c['kind']))
    G = 2 if tier == 'quick' else 6
    info = {'dims_functional': dims, 'dims_modules': mdims, 'sym_to_psd_extra_dim': 6, 'generic_atoms_per_family': G,
            'atom_families': {'away': '1 deterministic + G drawn, |theta_i| in [0.4,1.2] (both backends)',
                              'normal': 'G x N(0,1) (autograd only)', 'init': "the module's own initial theta (modules only)"},
            'atoms_per_config': {'numpy': 1 + G, 'torch': 1 + 2 * G, 'module': 2 + 2 * G},
            'backends': ['torch autograd', 'numpy central differences (h=1e-4 and 2e-4)'],
            'module_batch_sizes': [None, 1, 3], 'module_precisions': {64: 'Jacobian rank + parameter count', 32: 'parameter count only'},
            'rank_none': 'Trace1PSD, density_matrix, to_trace1_psd_cholesky, to_trace1_psd_ensemble', 'quantum_channel_dim_in': [1] + mdims,
            'separable': {'dims': 'dA in dims_modules, dB in (2,3)', 'num_cha': [None, 2, 3]},
            'quick_tier_restrictions': 'batch_size=1 at dim 2 (and dim_in=1) only; batched SeparableDensityMatrix for 2x2 only; batched channels for charts <= 4', 'quantum_channel_stiefel_dim_bound': 6 if tier == 'quick' else 9,
            'dead_band': {'autograd': 'zero below lo=1e3*eps*kappa*sigma_1, non-zero above 1e4*lo',
                          'finite_differences': 'zero below tau=sqrt(mn)*(2|J_2h-J_h|+1e3*eps*|f|/h), non-zero above 1e2*tau'},
            'exhaustive': True,
            'note': 'the configuration product up to the dimension bound x the atom list is enumerated completely; '
                    'the verdict at each configuration is for the listed atoms (generic-point statement)'}
    return cases, info


def key_opts(c, keys=('method', 'field', 'phase', 'trace0', 'norm1', 'return_kind', 'weight', 'num_cha')):
    ret = ','.join('%s=%s' % (k, c[k]) for k in keys if k in c)
    if c.get('rank_none') or ('rank' in c and c['rank'] is None):
        ret += ',rank=None'  # a defect of the rank=None default gets its own key
    return ret


# ------------------------------------------------------------------------------------------------ functional maps
def run_func(case, out, env):
    import numqi
    import torch
    c = case
    name = c['map']
    spec = c01.SPECS[name]
    n = spec.nparam(c)
    expect = manifold_dim(name, c)
    site = 'func/%s' % name
    ck = c01.cfg_key(c)
    kk = key_opts(c) + ',backend=%s' % c['backend']
    cfg = '%s [%s backend=%s]' % (name, ck, c['backend'])
    G = 2 if env.tier == 'quick' else 6
    # the atoms depend on (map, options, dim, rank, field) but NOT on the backend: both backends see the same points
    atoms = atom_list(n, env, G, c['backend'] == 'torch', name, ck)
    # rank_none: numqi is called with rank=None (documented default, = dim); table, kappa and parameter count use rank = dim
    cc = dict(c, rank=None) if c.get('rank_none') else c

    # parameter count versus dimension (table is independent of the count formula)
    if n < expect:
        out.violation('%s/too_few_parameters/%s' % (site, key_opts(c)), '%s: %d parameters cannot cover a manifold of dimension %d' % (cfg, n, expect), config=c)
    if is_minimal_chart(name, c) and n != expect:
        out.violation('%s/chart_not_minimal/%s' % (site, key_opts(c)), '%s: minimal chart with %d parameters, manifold dimension %d' % (cfg, n, expect), config=c)

    def fail(cls, what, **kw):
        out.violation('%s/%s/%s' % (site, cls, kk), '%s: %s' % (cfg, what), config=c, **kw)

    ranks_seen = []
    for label, th in atoms:
        kap = float(spec.kappa(th[None, :], c)[0])
        if not np.isfinite(kap) or kap > KAPPA_CAP:
            out.count('skipped_ill_conditioned')
            continue
        out.state()
        if c['backend'] == 'torch':
            tt = torch.tensor(th, dtype=torch.float64)
            fs = [1.0]

            def f(t):
                y = spec.call(numqi, t, cc)
                if y.is_complex():
                    y = torch.cat([y.real.reshape(-1), y.imag.reshape(-1)])
                else:
                    y = y.reshape(-1)
                fs[0] = float(y.detach().abs().max()) if y.numel() else 0.0
                return y
            try:
                with np.errstate(all='ignore'):
                    J = torch.autograd.functional.jacobian(f, tt).detach().numpy()
                out.trans()
            except Exception as e:
                if core.is_precondition_assert(e) and not c.get('rank_none'):  # rank=None is documented and the same theta is accepted with rank=dim
                    out.count('rejected_by_precondition')
                    continue
                fail('jacobian_raises_%s' % type(e).__name__, 'autograd Jacobian raised %r at theta=%s' % (e, th.tolist()), theta=th)
                break
            if not np.isfinite(J).all():
                fail('jacobian_not_finite', 'NaN/Inf in the autograd Jacobian at atom %s theta=%s' % (label, th.tolist()), theta=th)
                continue
            got, s, why = rank_autograd(J, kap, fs[0])
        else:
            def fnp(P):
                with np.errstate(all='ignore'):
                    return c01.to_np64(spec.call(numqi, P, cc))
            try:
                J, err, finite = fd_jacobian(fnp, th)
                out.trans()
            except Exception as e:
                if core.is_precondition_assert(e) and not c.get('rank_none'):  # rank=None is documented and the same theta is accepted with rank=dim
                    out.count('rejected_by_precondition')
                    continue
                fail('call_raises_%s' % type(e).__name__, 'batched numpy call raised %r around theta=%s' % (e, th.tolist()), theta=th)
                break
            if not finite:
                fail('not_finite', 'NaN/Inf in the output around atom %s theta=%s' % (label, th.tolist()), theta=th)
                continue
            got, s, why = rank_fd(J, err)
            # trusted-base monitor: numpy finite differences versus torch autograd of the same map (not a verdict)
            try:
                Jt = torch.autograd.functional.jacobian(lambda t: _flat_real(torch, spec.call(numqi, t, cc)), torch.tensor(th, dtype=torch.float64)).numpy()
                if Jt.shape == J.shape and np.abs(Jt - J).max() > err:
                    out.count('autograd_vs_numpy_fd_mismatch')
            except Exception:
                out.count('autograd_vs_numpy_fd_not_comparable')
        if got is None:
            out.count('undecided[%s]' % why)
            continue
        ranks_seen.append(got)
        out.outcome((name, ck, c['backend'], got, np.round(s / max(s[0], 1e-300), 3) if len(s) else s), nontrivial=got > 0)
        verdict(out, site, kk, label, got, expect, s, cfg, config=c, theta=th)
    if not ranks_seen:
        out.count('no_decided_atom[%s,%s]' % (name, kk))
    out.trace()
    out.sample = {'config': c, 'parameters': n, 'manifold_dimension': expect, 'ranks_observed': ranks_seen, 'first_atom': atoms[0][1].tolist()}


def _flat_real(torch, y):
    if y.is_complex():
        return torch.cat([y.real.reshape(-1), y.imag.reshape(-1)])
    return y.reshape(-1)


# ------------------------------------------------------------------------------------------------ nn.Module wrappers
def module_expectation(c, mod):
    """(dimension per sample, kappa spec name/config or None, spec name for minimality) for a module configuration"""
    cls = c['cls']
    fc = dict(c)
    if 'rank' in fc and fc['rank'] is None:
        fc['rank'] = fc['dim']  # documented default of Trace1PSD / density_matrix: full rank
    if cls == 'PositiveReal':
        return 1, None, ('positive_real', dict(fc, dim=1))
    if cls == 'OpenInterval':
        return 1, None, ('open_interval', dict(fc, dim=1))
    if cls == 'Ball':
        return manifold_dim('ball', fc), ('ball', fc), ('ball', fc)
    if cls in ('Sphere', 'quantum_state'):
        return manifold_dim('sphere', fc), ('sphere', fc), ('sphere', fc)
    if cls == 'SymmetricMatrix':
        return manifold_dim('symmetric', fc), ('symmetric', fc), ('symmetric', fc)
    if cls in ('SpecialOrthogonal', 'quantum_gate'):
        return manifold_dim('special_orthogonal', fc), ('special_orthogonal', fc), ('special_orthogonal', fc)
    if cls in ('Trace1PSD', 'density_matrix'):
        return manifold_dim('trace1psd', fc), ('trace1psd', fc), ('trace1psd', fc)
    if cls == 'Stiefel':
        return manifold_dim('stiefel', fc), ('stiefel', fc), ('stiefel', fc)
    if cls == 'DiscreteProbability':
        return manifold_dim('simplex', fc), ('simplex', fc), ('simplex', fc)  # a positive diagonal weight does not change the rank
    if cls == 'QuantumChannel':
        din, dout = c['dim'], c['dim_out']
        cr = din * dout if c['choi_rank'] is None else c['choi_rank']
        sc = {'method': c['method'], 'dim': cr * dout, 'rank': din, 'field': 'complex', 'phase': c['phase']}
        if c['return_kind'] == 'kraus' or phase_free_choi(c):
            # Kraus operators = the (cr*dout) x din isometry reshaped: dimension of the Stiefel chart. (phase-free chart composed
            # with Kraus->Choi: this number is used for the parameter count only, the rank oracle is the chain rule, see run_module)
            return manifold_dim('stiefel', sc), ('stiefel', sc), None
        # Choi operators of rank <= cr: PSD of rank cr on C^(dout*din) (2*N*cr - cr^2, N = dout*din) with Tr_out = 1 (din^2 conditions).
        # More Kraus operators than N = dout*din (only dim_in = dim_out = 1 in the enumeration) cannot raise the rank above N.
        cr = min(cr, dout * din)
        return 2 * dout * din * cr - cr * cr - din * din, ('stiefel', sc), None
    if cls == 'SeparableDensityMatrix':
        # default num_cha (=2*dA*dB product terms): the separable set has non-empty interior in the trace-one Hermitian operators
        # (it contains a ball around the maximally mixed state), so its dimension is D-1, D=(dA*dB)^2, and this is an upper bound
        # for every num_cha. That 2*dA*dB terms reach it is not a theorem quoted here but is PROVED per configuration by the
        # harness: the rank of a real-analytic map is lower semicontinuous, so one point where the harness's own mixture formula
        # has a differential of rank D-1 shows that the generic rank is D-1 (run_module requires rank J_ref == D-1 there).
        # explicit num_cha: no table; the reference is the rank of the harness's own mixture formula at the same point.
        D = (c['dim'] * c['dimB']) ** 2
        return (D - 1 if c['num_cha'] is None else None), None, None
    raise ValueError(cls)


def separable_mixture(torch, row, dA, dB, nc):
    """the harness's own formula for one sample of SeparableDensityMatrix (the mixture C01 recomputes from the raw parameters):
    row = [softmax logits (nc) | psiA (nc x [re dA, im dA]) | psiB (nc x [re dB, im dB])] -> real view of sum_c p_c |a_c b_c><a_c b_c|"""
    tp = row[:nc]
    ta = row[nc:nc + nc * 2 * dA].reshape(nc, 2 * dA)
    tb = row[nc + nc * 2 * dA:].reshape(nc, 2 * dB)
    p = torch.exp(tp - tp.max().detach())
    p = p / p.sum()
    a = torch.complex(ta[:, :dA], ta[:, dA:]) / torch.sqrt((ta * ta).sum(dim=1, keepdim=True))
    b = torch.complex(tb[:, :dB], tb[:, dB:]) / torch.sqrt((tb * tb).sum(dim=1, keepdim=True))
    ab = (a[:, :, None] * b[:, None, :]).reshape(nc, dA * dB)
    rho = torch.einsum('c,ci,cj->ij', p.to(ab.dtype), ab, ab.conj())
    return torch.cat([rho.real.reshape(-1), rho.imag.reshape(-1)])


def separable_ref_jacobian(torch, row, dA, dB, nc):
    t = torch.tensor(np.asarray(row, dtype=np.float64))
    return torch.autograd.functional.jacobian(lambda x: separable_mixture(torch, x, dA, dB, nc), t).numpy()


def kraus_to_choi_differential(K):
    """the harness's own differential of K -> C[o,i,p,j] = sum_k K[k,o,i] conj(K[k,p,j]) at K (cr,dout,din), as a real matrix
    acting on real views [re ; im]: dC = sum_k dK[k,o,i] conj(K[k,p,j]) + K[k,o,i] conj(dK[k,p,j])"""
    K = np.asarray(K, dtype=np.complex128)
    cols = []
    for unit in (1.0, 1j):
        for idx in range(K.size):
            dK = np.zeros(K.shape, dtype=np.complex128)
            dK.flat[idx] = unit
            dC = np.einsum('koi,kpj->oipj', dK, K.conj()) + np.einsum('koi,kpj->oipj', K, dK.conj())
            cols.append(real_view(dC))
    return np.stack(cols, axis=1)


def run_module(case, out, env):
    """Rank oracles per class: the dimension table (module_expectation); SeparableDensityMatrix with explicit num_cha and
    QuantumChannel(choi) over a phase-free chart have no table entry and are compared with a reference differential instead
    (the harness's own mixture formula / the chain rule through the harness's own Kraus->Choi differential).
    count_only (32-bit constructors): only the constructor's parameter count is compared with the table."""
    import numqi
    import torch
    c = case
    site = 'module/%s' % c['cls']
    kk = key_opts(c)
    skip = {'kind', 'prec', 'count_only'}
    ck = ','.join('%s=%s' % (k, c[k]) for k in sorted(c) if k not in skip)
    cfg = '%s(%s%s)' % (c['cls'], ck, '' if c['prec'] == 64 else ',prec=%d' % c['prec'])
    sep = c['cls'] == 'SeparableDensityMatrix'
    pfc = phase_free_choi(c)

    def fail(cls_, what, **kw):
        out.violation('%s/%s/%s' % (site, cls_, kk), '%s: %s' % (cfg, what), config=c, **kw)

    def build(cfg_):
        torch.manual_seed(0)  # the constructors draw their initial theta from the global torch generator
        try:
            return c01.build_module(numqi, cfg_)[0]
        except Exception as e:
            out.state()
            out.trans()
            if core.is_precondition_assert(e):
                out.count('rejected_by_precondition')
            else:
                fail('constructor_raises_%s' % type(e).__name__, 'constructor raised %r' % (e,))
            return None
    mod = build(c)
    if mod is None:
        return
    names = [k for k, _ in mod.named_parameters()]
    params = [p for _, p in mod.named_parameters()]
    bs = c['batch']
    nb = 1 if bs is None else bs
    ntot = sum(p.numel() for p in params)
    nper = ntot // nb
    expect, kspec, mspec = module_expectation(c, mod)
    G = 2 if env.tier == 'quick' else 6
    atoms = atom_list(nper * nb, env, G, True, c['cls'], ck)
    if sep:
        dA, dB = c['dim'], c['dimB']
        # default num_cha: the number of product terms is the library's choice (not documented) - read it off the parameter count
        nc = nper // (1 + 2 * dA + 2 * dB) if c['num_cha'] is None else c['num_cha']
        if nper != nc * (1 + 2 * dA + 2 * dB) or nc < 1:
            # the reference formula needs this layout; a different count is a finding of its own (complex unit vectors: 2*dim reals each)
            fail('unexpected_parameter_layout', 'constructor allocates %d parameters per sample, (%s product terms) x (1+2*%d+2*%d) expected' % (nper, c['num_cha'], dA, dB))
            return
    # constructor's parameter count against the table (explicit num_cha: against the rank of the reference mixture at the deterministic atom)
    expect_count = expect
    if expect_count is None and sep:
        r0, _, _ = rank_autograd(separable_ref_jacobian(torch, atoms[0][1][:nper], dA, dB, nc), float(nper), 1.0)
        expect_count = r0
        if r0 is None:
            out.count('undecided[reference_rank_for_parameter_count]')
    if expect_count is not None and nper < expect_count:
        fail('too_few_parameters', 'constructor allocates %d parameters per sample, manifold dimension %d' % (nper, expect_count))
    if mspec is not None and is_minimal_chart(*mspec) and nper != expect:
        fail('chart_not_minimal', 'minimal chart, but the constructor allocates %d parameters per sample for dimension %d' % (nper, expect))
    if kspec is not None and c01.SPECS[kspec[0]].nparam(kspec[1]) != nper:
        # the conditioning table (C01) is written for the documented theta layout: with another count no Jacobian verdict is possible
        if not (expect_count is not None and nper < expect_count) and not (mspec is not None and is_minimal_chart(*mspec) and nper != expect):
            fail('unexpected_parameter_layout', 'constructor allocates %d parameters per sample, the documented layout has %d' % (nper, c01.SPECS[kspec[0]].nparam(kspec[1])))
        out.state()
        out.trans()
        out.trace()
        return
    if c.get('count_only'):
        out.state()
        out.trans()
        out.outcome((c['cls'], ck, c['prec'], nper), nontrivial=nper > 0)
        out.count('count_only_configurations')
        out.trace()
        out.sample = {'config': c, 'parameters_per_sample': nper, 'manifold_dimension': expect_count}
        return
    modk = None
    if pfc:
        modk = build(dict(c, return_kind='kraus'))
        if modk is None:
            return
    atoms = [('init', None)] + atoms
    ranks_seen = []

    def jac(m, tens):
        fs = [1.0]

        def f(*ts):
            y = torch.func.functional_call(m, dict(zip(names, ts)), ())
            y = _flat_real(torch, y.reshape(nb, -1)) if nb == 1 else _batch_real(torch, y, nb)
            fs[0] = float(y.detach().abs().max())
            return y
        with np.errstate(all='ignore'):
            Js = torch.autograd.functional.jacobian(f, tuple(tens))
        # Js[k]: (nb*m_out, *param_shape) -> (nb, m_out, nb, n_k)
        blocks = [j.detach().numpy().reshape(nb, -1, nb, p.numel() // nb) for j, p in zip(Js, params)]
        return np.concatenate(blocks, axis=3), fs[0]  # (nb, m, nb, nper)

    for label, th in atoms:
        if th is None:
            th = np.concatenate([p.detach().numpy().reshape(nb, -1) for p in params], axis=1).reshape(-1)
        rows = th.reshape(nb, nper)
        # distribute each sample's parameter vector over the parameter tensors, sample-major (as in C01)
        tens = []
        off = 0
        for p in params:
            m = p.numel() // nb
            tens.append(torch.tensor(rows[:, off:off + m].reshape(tuple(p.shape)), dtype=p.dtype))
            off += m
        if kspec is not None:
            kap = float(np.max(c01.SPECS[kspec[0]].kappa(rows, kspec[1])))
        elif sep:
            # softmax and quotient spheres (C01 table: kappa = number of coordinates); a zero psi block is outside the domain
            blk = rows[:, nc:]
            nrm = np.concatenate([np.linalg.norm(blk[:, :nc * 2 * dA].reshape(nb, nc, -1), axis=2), np.linalg.norm(blk[:, nc * 2 * dA:].reshape(nb, nc, -1), axis=2)], axis=1)
            kap = float(nper) if nrm.min() > 1e-30 else np.inf
        else:
            kap = 1.0
        if not np.isfinite(kap) or kap > KAPPA_CAP:
            out.count('skipped_ill_conditioned')
            continue
        out.state()
        try:
            Jfull, fscale = jac(mod, tens)
            out.trans()
        except Exception as e:
            fail('jacobian_raises_%s' % type(e).__name__, 'Jacobian of forward() raised %r (atom %s)' % (e, label), theta=th)
            break
        if not np.isfinite(Jfull).all():
            fail('jacobian_not_finite', 'NaN/Inf in the Jacobian of forward() at atom %s' % label, theta=th)
            continue
        for i in range(nb):
            for j in range(nb):
                if i != j and np.abs(Jfull[i, :, j, :]).max() > 0:
                    fail('samples_coupled', 'output of batch sample %d depends on the parameters of sample %d (atom %s)' % (i, j, label), theta=th)
                    break
        Jref = None  # per-sample reference differentials (classes without a table entry; default-num_cha mixtures: proof of the table)
        if pfc:
            try:
                Jk, _ = jac(modk, tens)
                with torch.no_grad():
                    Kv = torch.func.functional_call(modk, dict(zip(names, tens)), ()).numpy().reshape((nb,) + (-1, c['dim_out'], c['dim']))
                out.trans()
            except Exception as e:
                fail('jacobian_raises_%s' % type(e).__name__, 'Jacobian of the kraus twin raised %r (atom %s)' % (e, label), theta=th)
                break
            Jref = [kraus_to_choi_differential(Kv[i]) @ Jk[i, :, i, :] for i in range(nb)]
        elif sep:
            Jref = [separable_ref_jacobian(torch, rows[i], dA, dB, nc) for i in range(nb)]
        for i in range(nb):
            lab = label + ('' if bs is None else '[sample %d]' % i)
            got, s, why = rank_autograd(Jfull[i, :, i, :], kap, fscale)
            if got is None:
                out.count('undecided[%s]' % why)
                continue
            table = None if pfc else expect
            if Jref is not None:
                ref, sr, whyr = rank_autograd(Jref[i], kap, fscale)
                if ref is None:
                    out.count('undecided[reference:%s]' % whyr)
                    continue
                if table is not None:
                    if ref == table:
                        out.count('table_entry_proved_by_reference_rank')
                    else:
                        # the reference has the library's number of product terms: fewer terms than the full-dimensional separable
                        # set needs show up here as well. The verdict below is against the table in any case.
                        out.count('reference_rank_below_table_at_atom')
            ranks_seen.append(got)
            out.outcome((c['cls'], ck, got, np.round(s / max(s[0], 1e-300), 3) if len(s) else s), nontrivial=got > 0)
            if Jref is not None:
                out.count('rank_compared_with_%s' % ('kraus_chain_rule' if pfc else 'reference_mixture'))
            if Jref is not None and got != ref:
                cls_ = 'choi_rank_differs_from_kraus_chain_rule' if pfc else 'rank_differs_from_reference_mixture'
                what = ('rank of d(choi)/d(theta) is %d, but (harness Kraus->Choi differential) x d(kraus)/d(theta) of the same module has rank %d' if pfc else
                        'rank of the differential is %d, the mixture sum_c p_c |a_c b_c><a_c b_c| of the same parameters has rank %d') % (got, ref)
                fail(cls_, 'atom %s: %s' % (lab, what), rank=got, expected=ref, singular_values=np.asarray(s)[:40], reference_singular_values=np.asarray(sr)[:40], theta=rows[i])
                break
            if table is not None and not verdict(out, site, kk, lab, got, table, s, cfg, config=c, theta=rows[i]):
                break
    if not ranks_seen:
        out.count('no_decided_atom[%s,%s]' % (c['cls'], kk))
    out.trace()
    out.sample = {'config': c, 'parameters_per_sample': nper, 'manifold_dimension': expect, 'ranks_observed': ranks_seen[:8]}


def _batch_real(torch, y, nb):
    y = y.reshape(nb, -1)
    if y.is_complex():
        y = torch.cat([y.real, y.imag], dim=1)
    return y.reshape(-1)


def run_case(case, out, env):
    if case['kind'] == 'func':
        run_func(case, out, env)
    else:
        run_module(case, out, env)
