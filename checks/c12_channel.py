"""C12 - channel representations are equivalent and channels are contractive   (modes B + H over conversions)

Spaces (DESIGN.md section 4, C12). Every space is enumerated completely; the only seed-dependent inputs are the generic
atoms (unitaries / states drawn from env.rng(tag), integer seeds handed to numqi.random.rand_kraus_op / rand_choi_op).

  conv     : channel alphabet = Stinespring isometries: first d_in columns of U in {identity, cyclic shift, Fourier (complex) /
             Hartley (real), generic atoms} of size d_out*n_K, cut into n_K Kraus blocks, for ALL (d_in, d_out) in 1..D, ALL
             n_K from ceil(d_in/d_out) to d_in*d_out, real and complex; plus a "mixed" variant (n_K linearly dependent terms:
             rank-deficient Choi operator with non-trivial redundancy), numqi.random.rand_kraus_op atoms, and
             numqi.random.rand_choi_op(rank=r) roots for ALL admissible ranks r (the channel is then *defined* by the Choi
             operator). Unitaries (d_in=d_out, n_K=1), isometries (n_K=1, d_out>d_in), zero Kraus terms and degenerate Choi
             spectra are all members of that enumeration.
             Conversion graph  K -> {C,S},  C -> {K,S},  S -> {C,K}  (the six *_to_* functions): ALL paths up to length L
             from the root, executed as a tree; hf_channel_to_kraus_op / hf_channel_to_choi_op are extra edges out of every
             node of depth <= 1 (fed with that node's own apply routine). At EVERY node (a) the representation is compared
             with the reference (Choi / super-operator arrays entry by entry in the documented index convention; Kraus sets
             through the reference application on all matrix units, and completeness), (b) the node's own apply_* routine is
             evaluated on ALL matrix units E_ij (linear completeness) plus generic Hermitian and non-Hermitian atoms and
             compared with sum_s K_s X K_s^dagger. Torch: kraus_op_to_choi_op, apply_kraus_op, apply_choi_op, apply_super_op
             (the functions that offer torch) on the same alphabets.
  bloch    : choi_op_to_bloch_map(C) for every channel of the alphabet: the complete matrix A and vector b equal
             A_kl = Tr(G_k Phi(G_l))/2, b_k = Tr(G_k Phi(1))/(2 d_in) (reference Gell-Mann matrices built here), and for a basis
             alphabet of states (|a>, |a>+|b>, |a>+i|b>, 1/d, atoms) the path rho -> Bloch vector -> A r + b -> state equals Phi(rho)
             and numqi's own apply_choi_op(rho).
  noise    : hf_dephasing / hf_depolarizing / hf_amplitude_damping at ALL rates of a finite rate alphabet (end points, 1e-9
             from both ends, a uniform grid) x rate types (float, int end points, numpy scalar): finite, trace preserving,
             completely positive (Choi operator PSD), then the conversion tree and the contraction alphabet as above.
  contract : for every channel of the alphabet and ALL ordered pairs of a state alphabet (basis projectors, neighbouring
             superpositions, maximally mixed, pure / rank-2 / full-rank generic atoms; kets and projectors for pure states):
             trace distance non-increasing, fidelity non-decreasing, relative entropy non-increasing (finite cases), with
             equality for unitaries and isometries (invertible channels: the inequality holds in both directions), fidelity
             symmetric, in [0,1] and independent of the ket/projector form, entropies in [0, log d]; numpy and torch.
  options  : (coordinates inside the cases above, each enumerated completely)
             get_relative_entropy(tr_rho_log_rho=reference Tr rho log rho) for EVERY pair with finite relative entropy (inputs and channel
             outputs, both backends) equals the default call; torch arguments that require grad, {rho, sigma, both} x _torch_logm in {'eigen',
             default ('pade',6,8), ('pade',8,10)} on every input pair with full-rank sigma (both + default on every output pair), equal the
             numpy value; get_von_neumann_entropy (torch) x {no grad, grad} x {'eigen', ('pade',6,8), ('pade',8,10)} on every input state (grad +
             ('pade',6,8) on every channel output) equals the plain call; get_von_neumann_entropy on the whole state alphabet as one batch (n,d,d) and (1,n,d,d) (torch: also grad + pade) has
             shape (n,) / (1,n) and equals the single calls; choi_op_to_kraus_op / super_op_to_kraus_op(zero_eps=t), t in {0, 1e-14, 1e-10, 1e-4},
             on every channel of the conv alphabet and every noise channel (rates 1e-9 from both ends included): number of terms = number of
             reference eigenvalues >= t (an interval where an eigenvalue is within the eigh backward error of t), reconstruction error <= d_in *
             (sum of dropped eigenvalues) + tol_lin; the Kraus set as a Python list for apply_kraus_op (numpy, torch) and kraus_op_to_super_op.
             The input alphabet of every contract / noise case runs the complete option grid; channel outputs enter the option axes
             (tr_rho_log_rho, grad + pade) for max(d_in,d_out) <= 3 in both tiers (budget cap; the code paths do not depend on d).
Oracle: Phi(X) = sum_s K_s X K_s^dagger by explicit loops; Choi C[(i,o),(j,p)] = Phi(E_ij)[o,p]; super S[(o,p),(i,j)] = Phi(E_ij)[o,p].

Tolerances (DESIGN 3.2: c * eps * kappa, c = C_SAFETY = 1e3, eps = 2.2e-16):
  linear part. One entry of Phi(X) is a sum of n = n_K*d_in^2 products K[o,i] X[i,j] conj(K[p,j]). The standard forward error of
    such a sum is gamma_n * sum|terms|, and sum|terms| <= max|X| * d_in * sqrt(Phi(1)_oo Phi(1)_pp) <= max|X| * d_in^2 (Cauchy-Schwarz
    and Phi(1)_oo <= Tr Phi(1) = d_in). Every conversion is a permutation of entries (exact) or again such a sum, so the bound is
    multiplied by (steps+1). An eigen-decomposition (choi_op_to_kraus_op) is backward stable: it returns the exact eigen-system of
    C + E with |E| <= N eps |C|_2, N = d_in d_out, |C|_2 <= Tr C = d_in; entries of Phi(X) change by at most N max|X| |E|.
    kappa_lin = (steps+1) * max(1,max|X|) * d_in^2 * ( n_max d_in^2 + n_eig N^2 ),  n_max = max(n_K, N) (an eigen-Kraus set has <= N terms).
    Eigenvalues of the reference Choi operator below zero_eps (1e-10, numqi's documented threshold) are dropped by design; their sum
    times d_in max|X| is added to the tolerance (it is 0 for every channel of the alphabet except rates < 1e-10).
  fidelity. F = (sum_i sqrt(lambda_i))^2 with lambda the spectrum of sqrt(rho) sigma sqrt(rho). sum_i sqrt(lambda_i) is the nuclear norm
    of sqrt(sigma) sqrt(rho); an eigenvalue error delta <= 4 d eps of rho or of the product moves each of the d square roots by at most
    sqrt(delta) (the inherent sqrt(eps) of a square root at the spectrum edge: probe F(rho,rho)=1+2.8e-8 for pure rho). Hence
    |d sqrtF| <= 2 d sqrt(4 d eps) and |dF| <= 2 |d sqrtF| + |d sqrtF|^2.  tol_F(d) = 16 d sqrt(d eps)  (1.2e-7 .. 2.7e-6 for d = 1..5).
    An inequality between two fidelities uses tol_F(d_in) + tol_F(d_out).
  trace distance. Half the sum of |eigenvalues| of a Hermitian difference of norm <= 2: eigvalsh error <= d eps * 2 per eigenvalue:
    tol_T(d) = C_SAFETY * eps * d^2.
  entropy. -sum l log l with l clamped at eps by numqi: the clamp adds at most d eps |log eps|, eigenvalue errors d eps change l log l by
    at most d eps (|log eps|+1):  tol_S(d) = C_SAFETY * eps * d * 40.
  relative entropy. Tr rho log rho - Tr rho log sigma: the second term has condition 1/lambda_min+(sigma) (smallest non-zero eigenvalue;
    computed by the reference). tol_R = C_SAFETY * eps * d * (40 + 1/lmin+(sigma) + 1/lmin+(Phi sigma)); pairs with kappa > 1e8 are counted
    as skipped_ill_conditioned; pairs whose supports are not nested (relative entropy +inf) are outside_math_domain.
  Pade matrix logarithm (torch, requires_grad): Gauss-Legendre remainder + rounding, derived in tol_pade().
"""

import numpy as np

from mc import core

PROPERTY = 'C12'
GUARD = ['numqi.channel', 'numqi.utils']  # argument-immutability oracle (mc.seams.ImmutabilityGuard)
GUARD_LAYOUT = ['numqi.channel', 'numqi.utils']  # memory-layout metamorphic oracle (same wrapper)
LEVEL = 'model_checking'
RULE = ('case = (d_in, d_out, n_K, field[, backend]); inside a case the whole channel alphabet (Stinespring isometries from identity / '
        'cyclic shift / Fourier|Hartley / generic unitaries, a rank-deficient "mixed" Kraus set, rand_kraus_op atoms, rand_choi_op roots of '
        'every admissible rank) is enumerated. conv: state = one node of the conversion tree (channel, conversion path of length <= L over '
        'the six *_to_* functions plus the two hf_channel_to_* edges); transition = one numqi call compared with the reference (a conversion '
        'compared entry by entry, or an apply_* routine on one element of the complete matrix-unit alphabet E_ij + atoms); trace = one '
        'root-to-leaf conversion path on which every node was compared in lock-step. bloch: state = (channel, state of the basis alphabet). '
        'contract / noise: state = (channel, ordered pair of alphabet states) or (noise channel, rate, rate type); transition = one '
        'numqi.utils / numqi.channel call that entered a checked (in)equality. non-trivial = the observed representation is not a 0/1 matrix '
        '(conv, bloch), the observed contraction is strict (contract), the rate is interior (noise). Option coordinates enumerated inside these '
        'cases: tr_rho_log_rho supplied / computed (every finite pair, both backends); torch requires_grad on {rho, sigma, both} x _torch_logm in '
        '{eigen, default pade(6,8), pade(8,10)} (full-rank sigma) against numpy; entropy x {grad, no grad} x the same logm alphabet; entropy of the '
        'state alphabet as a batch (n,d,d) / (1,n,d,d); zero_eps in {0, 1e-14, 1e-10, 1e-4} at the C->K and S->K edges of every channel (term '
        'count against the reference spectrum + reconstruction); Kraus set as a Python list (apply_kraus_op numpy/torch, kraus_op_to_super_op)')
ASSUMPTIONS = [
    'reference semantics: Phi(X) = sum_s K_s X K_s^dagger (explicit numpy loops); Choi operator indexed (in,out,in,out) with '
    'C[(i,o),(j,p)] = Phi(E_ij)[o,p]; super-operator indexed (out*out, in*in) acting on the row-major flattened state - the '
    'conventions written in the comments of channel/_internal.py',
    'C-linearity of apply_* is trusted (einsum / matmul / reshape only) and spot-checked with one residual per channel and routine; '
    'given it, agreement on all matrix units E_ij implies agreement on every input state',
    'a complete Kraus set needs n_K*d_out >= d_in; rand_choi_op(rank=r) needs r*d_out >= d_in (no channel exists otherwise): the '
    'alphabets start there',
    'hf_channel_to_choi_op returns the 4-index tensor (in,out,in,out); it is reshaped to the matrix form before use',
    'a Bloch vector of a 1-dimensional system is empty; numqi.gellmann (documented for d >= 2, property C16) is used to encode/decode '
    'Bloch vectors only for d >= 2, the reference Gell-Mann matrices built in this file otherwise',
    'torch is exercised with equal dtypes for operator and state (torch does not promote in matmul); the conversions that use '
    'ndarray.transpose(axes) / np.kron / np.linalg.eigh (choi<->super, *_to_kraus_op, kraus_op_to_super_op, choi_op_to_bloch_map) and '
    'get_trace_distance are numpy-only by their docstrings/comments',
    'contractivity, fidelity and entropy statements are lattice statements over the enumerated channel x state-pair alphabet (non-linear '
    'functions); the representation equivalence is complete modulo linearity',
    'dimensions above the bound, GPU tensors, float32/complex64 and integer-dtype inputs, batches of channels and gradients (backward passes) '
    'are outside the explored space; requires_grad inputs are explored for their forward value only (it selects the Pade logarithm)',
    'the option axes (tr_rho_log_rho, requires_grad x _torch_logm) are enumerated on the input alphabet of every case and on channel outputs '
    'only for max(d_in,d_out) <= 3 (counter output_option_axes_not_enumerated)',
    'the requires_grad x _torch_logm axis of get_relative_entropy is explored for full-rank sigma with 1/lambda_min <= 1e8 (the Gauss-Legendre '
    'remainder bound needs lambda_min > 0); tr_rho_log_rho is supplied as a Python float equal to the reference Tr rho log rho (0 log 0 = 0)',
    'the number of Kraus terms returned for a threshold zero_eps is checked as an interval [#{ev >= zero_eps+noise}, #{ev >= zero_eps-noise}], '
    'noise = 1e3 eps N d_in (eigh backward error): for zero_eps <= noise the count of exactly-zero reference eigenvalues kept is not determined',
    'a Kraus set given as a Python list is admissible only for the functions that iterate over it (apply_kraus_op, kraus_op_to_super_op); '
    'kraus_op_to_choi_op uses .transpose and needs an array',
]
CHUNK = 1

C_SAFETY = 1e3
EPS = 2.220446049250313e-16
ZERO_EPS = 1e-10  # numqi's documented default threshold of choi_op_to_kraus_op
KAPPA_CAP = 1e8


# ------------------------------------------------------------------------------------------------ reference model
def ref_phi(K, X):
    """sum_s K_s X K_s^dagger, explicit loop"""
    K = np.asarray(K).astype(np.complex128)
    X = np.asarray(X).astype(np.complex128)
    ret = np.zeros((K.shape[1], K.shape[1]), dtype=np.complex128)
    for s in range(K.shape[0]):
        ret = ret + K[s] @ X @ K[s].conj().T
    return ret


def ref_phiE(K):
    """PhiE[i,j] = Phi(E_ij), shape (din,din,dout,dout): outer products of Kraus columns"""
    K = np.asarray(K).astype(np.complex128)
    nk, dout, din = K.shape
    ret = np.zeros((din, din, dout, dout), dtype=np.complex128)
    for i in range(din):
        for j in range(din):
            for s in range(nk):
                ret[i, j] += np.outer(K[s][:, i], K[s][:, j].conj())
    return ret


def phiE_to_choi(PhiE):
    din, _, dout, _ = PhiE.shape
    C = np.zeros((din * dout, din * dout), dtype=np.complex128)
    for i in range(din):
        for o in range(dout):
            for j in range(din):
                for p in range(dout):
                    C[i * dout + o, j * dout + p] = PhiE[i, j, o, p]
    return C


def phiE_to_super(PhiE):
    din, _, dout, _ = PhiE.shape
    S = np.zeros((dout * dout, din * din), dtype=np.complex128)
    for i in range(din):
        for j in range(din):
            for o in range(dout):
                for p in range(dout):
                    S[o * dout + p, i * din + j] = PhiE[i, j, o, p]
    return S


def choi_to_phiE(C, din):
    """a channel *defined* by its Choi operator in the documented (in,out,in,out) convention"""
    dout = C.shape[0] // din
    PhiE = np.zeros((din, din, dout, dout), dtype=np.complex128)
    for i in range(din):
        for o in range(dout):
            for j in range(din):
                for p in range(dout):
                    PhiE[i, j, o, p] = C[i * dout + o, j * dout + p]
    return PhiE


def phi_from_phiE(PhiE, X):
    X = np.asarray(X).astype(np.complex128)
    din = PhiE.shape[0]
    ret = np.zeros(PhiE.shape[2:], dtype=np.complex128)
    for i in range(din):
        for j in range(din):
            ret = ret + X[i, j] * PhiE[i, j]
    return ret


_GM = {}


def ref_gellmann(d):
    """textbook generalized Gell-Mann matrices (d*d,d,d): symmetric (a<b row-major), antisymmetric, diagonal, sqrt(2/d) 1; Tr G_i G_j = 2 delta"""
    if d not in _GM:
        pairs = [(a, b) for a in range(d) for b in range(a + 1, d)]
        mats = []
        for a, b in pairs:
            m = np.zeros((d, d), dtype=np.complex128)
            m[a, b] = 1
            m[b, a] = 1
            mats.append(m)
        for a, b in pairs:
            m = np.zeros((d, d), dtype=np.complex128)
            m[a, b] = -1j
            m[b, a] = 1j
            mats.append(m)
        for l in range(1, d):
            v = np.zeros(d)
            v[:l] = 1
            v[l] = -l
            mats.append(np.diag(v * np.sqrt(2.0 / (l * (l + 1)))).astype(np.complex128))
        mats.append(np.eye(d, dtype=np.complex128) * np.sqrt(2.0 / d))
        _GM[d] = np.stack(mats)
    return _GM[d]


def ref_bloch_of(rho):
    d = rho.shape[0]
    G = ref_gellmann(d)[:-1]
    if len(G) == 0:
        return np.zeros(0)
    return (np.einsum('iab,ba->i', G, np.asarray(rho).astype(np.complex128)) / 2).real


def ref_dm_of_bloch(vec, d):
    G = ref_gellmann(d)[:-1]
    ret = np.eye(d, dtype=np.complex128) / d
    for i in range(len(G)):
        ret = ret + vec[i] * G[i]
    return ret


def ref_bloch_map(PhiE):
    din, _, dout, _ = PhiE.shape
    Gi, Go = ref_gellmann(din)[:-1], ref_gellmann(dout)[:-1]
    A = np.zeros((len(Go), len(Gi)))
    b = np.zeros(len(Go))
    img1 = phi_from_phiE(PhiE, np.eye(din))
    for k in range(len(Go)):
        b[k] = (np.trace(Go[k] @ img1) / (2 * din)).real
        for l in range(len(Gi)):
            A[k, l] = (np.trace(Go[k] @ phi_from_phiE(PhiE, Gi[l])) / 2).real
    return A, b


def ref_eigh_psd(rho):
    rho = np.asarray(rho).astype(np.complex128)
    return np.linalg.eigh((rho + rho.conj().T) / 2)


def ref_lmin_plus(rho, thr=1e-12):
    ev = ref_eigh_psd(rho)[0]
    pos = ev[ev > thr]
    return float(pos.min()) if len(pos) else 1.0


def ref_support_nested(rho, sigma, thr=1e-12):
    """supp(rho) inside supp(sigma) ?  weight of rho on the kernel of sigma"""
    ev, evc = ref_eigh_psd(sigma)
    ker = evc[:, ev <= thr]
    if ker.shape[1] == 0:
        return True
    w = np.trace(ker.conj().T @ np.asarray(rho).astype(np.complex128) @ ker).real
    return w <= thr


# ------------------------------------------------------------------------------------------------ tolerances
def tol_lin(din, dout, nk, steps, n_eig, scale, dropped=0.0):
    N = din * dout
    nmax = max(nk, N)
    kappa = (steps + 1) * max(1.0, scale) * din * din * (nmax * din * din + n_eig * N * N)
    return C_SAFETY * EPS * kappa + dropped * din * max(1.0, scale)


def tol_F(d):
    return 16.0 * d * np.sqrt(d * EPS)


def tol_T(d):
    return C_SAFETY * EPS * d * d


def tol_S(d):
    return C_SAFETY * EPS * d * 40.0


def tol_R(d, *kappas):
    """relative entropy (docstring, tolerances): C_SAFETY eps d (40 + sum 1/lmin+(sigma))"""
    return C_SAFETY * EPS * d * (40.0 + sum(kappas))


def tol_pade(d, s, m, lmin, weighted):
    """extra tolerance of the ('pade', s, m) matrix logarithm used for torch inputs that require grad:
       log A = 2^s log X, X = A^(1/2^s), log X = int_0^1 (X-1)[(1-t) + t X]^-1 dt by the m-point Gauss-Legendre rule.
    truncation. For one eigenvalue lambda = u^(2^s), x = u-1 <= 0, the integrand f(t) = x/(1+t x) has f^(2m)(t) = (2m)! x^(2m+1)/(1+t x)^(2m+1); the
      Gauss-Legendre remainder (m!)^4 f^(2m)(xi) / ((2m+1) (2m)!^3) is bounded by c_m ((1-u)/u)^(2m+1), c_m = (m!)^4/((2m+1) (2m)!^2). Relative
      entropy (weighted=False): full-rank sigma, u >= lmin^(1/2^s), |Tr rho E| <= |E|_2. Entropy (weighted=True): the error is weighted by lambda itself,
      lambda 2^s c_m ((1-u)/u)^(2m+1) = 2^s c_m u^a (1-u)^b with a = 2^s-2m-1 >= 0, b = 2m+1, maximal at u = a/(a+b): valid for singular states too.
    rounding. X carries a relative error d eps; every one of the m solves has condition <= 1/min eig[(1-t_k) + t_k X] <= 1/max(u_min, 1-t_max); the
      sum has m terms and the result is multiplied by 2^s:  kappa = 2^s (m+1) / max(u_min, 1 - t_max)."""
    tmax, cm = _pade_constants(m)
    umin = float(max(lmin, 0.0)) ** (1.0 / 2 ** s)
    if weighted:
        a, b = 2 ** s - 2 * m - 1, 2 * m + 1
        assert a >= 0
        trunc = d * 2 ** s * cm * (a / (a + b)) ** a * (b / (a + b)) ** b
    else:
        trunc = 2 ** s * cm * ((1 - umin) / umin) ** (2 * m + 1)
    return C_SAFETY * EPS * d * 2 ** s * (m + 1) / max(umin, 1 - tmax) + trunc


_PADE_CONST = {}


def _pade_constants(m):
    """largest node t_max of the m-point Gauss-Legendre rule on [0,1] and the remainder constant c_m"""
    if m not in _PADE_CONST:
        import math
        node = np.polynomial.legendre.leggauss(m)[0]
        _PADE_CONST[m] = (float((node.max() + 1) / 2), math.factorial(m) ** 4 / ((2 * m + 1) * float(math.factorial(2 * m)) ** 2))
    return _PADE_CONST[m]


def ref_choi_of_kraus(K, din, dout):
    """C = sum_s vec(K_s) vec(K_s)^+ with vec(K)[(i,o)] = K[o,i]: the same numbers as phiE_to_choi(ref_phiE(K)), one outer product per term"""
    C = np.zeros((din * dout, din * dout), dtype=np.complex128)
    for s in range(K.shape[0]):
        v = np.asarray(K[s]).astype(np.complex128).T.reshape(-1)
        C = C + np.outer(v, v.conj())
    return C


def ref_tr_rho_log_rho(rho):
    """Tr rho log rho = sum l log l over the positive eigenvalues (0 log 0 = 0); the value get_relative_entropy documents for tr_rho_log_rho"""
    ev = ref_eigh_psd(rho)[0]
    ev = ev[ev > 0]
    return float(np.sum(ev * np.log(ev)))


ZERO_EPS_ALPHABET = [0.0, 1e-14, ZERO_EPS, 1e-4]  # zero_eps= coordinate of choi_op_to_kraus_op / super_op_to_kraus_op
LOGM_DEFAULT = ('pade', 6, 8)  # default _torch_logm of get_relative_entropy (read from the signature)
LOGM_ALPHABET = ['eigen', None, ('pade', 8, 10)]  # None = the function's default
GRAD_ALPHABET = ['r', 's', 'rs']  # which argument requires grad
OPTS_DMAX = 3  # channel OUTPUTS enter the option axes for max(d_in,d_out) <= 3 (both tiers); the input alphabets of every case do (complete grid)
PENDING = set()  # additions whose oracle fires on the unchanged tree (reported; see the audit protocol)


# ------------------------------------------------------------------------------------------------ alphabets
def unitary_alphabet(N, real, G, rng):
    ret = [('id', np.eye(N))]
    P = np.zeros((N, N))
    for k in range(N):
        P[(k + 1) % N, k] = 1
    ret.append(('shift', P))
    a, b = np.meshgrid(np.arange(N), np.arange(N), indexing='ij')
    if real:
        ang = 2 * np.pi * a * b / N
        ret.append(('hartley', (np.cos(ang) + np.sin(ang)) / np.sqrt(N)))
    else:
        ret.append(('fourier', np.exp(2j * np.pi * a * b / N) / np.sqrt(N)))
    for g in range(G):
        if real:
            q, r = np.linalg.qr(rng.normal(size=(N, N)))
            q = q * np.sign(np.diag(r))
        else:
            z = rng.normal(size=(N, N)) + 1j * rng.normal(size=(N, N))
            q, r = np.linalg.qr(z)
            q = q * (np.diag(r) / np.abs(np.diag(r)))
        ret.append(('atom%d' % g, q))
    return ret


def stinespring(U, din, dout, nk, real):
    V = U[:, :din]
    K = V.reshape(nk, dout, din)
    return np.ascontiguousarray(K.real if real else K.astype(np.complex128))


def min_terms(din, dout):
    return -(-din // dout)


def channel_alphabet(din, dout, nk, real, G, rng, numqi, seed_base, out=None):
    """list of dict(label, root ('K'|'C'), K or C, PhiE). Everything except the atoms is seed independent."""
    ret = []
    for label, U in unitary_alphabet(dout * nk, real, G, rng):
        ret.append({'label': label, 'root': 'K', 'K': stinespring(U, din, dout, nk, real)})
    # rank-deficient Choi operator with genuine redundancy: m < n_K independent terms mixed by an n_K x m isometry
    m = max(min_terms(din, dout), nk // 2)
    if m < nk:
        Ub = unitary_alphabet(dout * m, real, 1, rng)[-1][1]
        Kb = stinespring(Ub, din, dout, m, real)
        W = unitary_alphabet(nk, real, 0, rng)[2][1][:, :m]
        Km = np.einsum('ts,sab->tab', W, Kb)
        ret.append({'label': 'mixed(%d of %d)' % (m, nk), 'root': 'K', 'K': np.ascontiguousarray(Km.real if real else Km.astype(np.complex128))})
    # numqi's own generators as further atoms (integer seeds: functions of VERIF_SEED only). An atom is admitted only if it is a
    # channel to working precision (completeness defect <= C_SAFETY*eps*N*n_K): rand_kraus_op / rand_choi_op orthonormalise through the
    # inverse square root of a Gram matrix and lose accuracy on ill-conditioned draws (e.g. rand_kraus_op(1,2,2,tag_complex=False,
    # seed=485961596) has |K^+K - 1| = 2.3e-10); that is a matter for the generators (C10), every statement of C12 about such an input
    # would only hold up to its own defect. A rejected draw is counted and the next seed is taken.
    N = din * dout
    adm = C_SAFETY * EPS * N * max(nk, din)
    for g in range(min(G, 2)):
        for attempt in range(8):
            sd = int(seed_base + g + 16 * attempt)
            try:
                K = numqi.random.rand_kraus_op(nk, din, dout, tag_complex=not real, seed=sd)
                ok = K.shape == (nk, dout, din) and np.all(np.isfinite(K)) and np.abs(sum(x.conj().T @ x for x in K) - np.eye(din)).max() <= adm
            except Exception:
                ok = False
            if ok:
                ret.append({'label': 'rand_kraus_op(seed=%d)' % sd, 'root': 'K', 'K': K})
                break
            if out is not None:
                out.count('atom_rejected(generator output not a channel to working precision)')
    for e in ret:
        e['PhiE'] = ref_phiE(e['K'])
    if not real:
        # Choi-operator roots: nk plays the role of the rank
        for attempt in range(8):
            sd = int(seed_base + 7 + 16 * attempt)
            try:
                C = numqi.random.rand_choi_op(din, dout, rank=nk, seed=sd)
                ok = C.shape == (N, N) and np.all(np.isfinite(C)) and np.abs(C - C.conj().T).max() <= adm
                if ok:
                    ok = np.linalg.eigvalsh((C + C.conj().T) / 2)[0] >= -adm
                    ptr = np.einsum('iojo->ij', C.reshape(din, dout, din, dout))
                    ok = ok and np.abs(ptr - np.eye(din)).max() <= adm
            except Exception:
                ok = False
            if ok:
                ret.append({'label': 'rand_choi_op(rank=%d,seed=%d)' % (nk, sd), 'root': 'C', 'C': C, 'PhiE': choi_to_phiE(C, din)})
                break
            if out is not None:
                out.count('atom_rejected(generator output not a channel to working precision)')
    return ret


def input_alphabet(din, real_only, G, rng):
    """(labels, [X]): all matrix units, then atoms: Hermitian full-rank state, non-Hermitian generic matrix, ..."""
    labels, mats = [], []
    for i in range(din):
        for j in range(din):
            m = np.zeros((din, din), dtype=np.float64 if real_only else np.complex128)
            m[i, j] = 1
            labels.append('E%d,%d' % (i, j))
            mats.append(m)
    for g in range(G):
        re, im = rng.normal(size=(din, din)), rng.normal(size=(din, din))
        z = re if real_only else (re + 1j * im)
        if g % 2 == 0:
            z = z @ z.conj().T
            z = z / np.trace(z).real
            labels.append('atom%d(state)' % g)
        else:
            labels.append('atom%d(nonhermitian)' % g)
        mats.append(z)
    return labels, mats


def state_alphabet(d, real, G, rng):
    """list of dict(label, rho, ket|None). basis projectors, neighbouring superpositions, maximally mixed, generic atoms"""
    dt = np.float64 if real else np.complex128
    ret = []
    E = np.eye(d)

    def pure(label, v):
        v = (v / np.linalg.norm(v)).astype(dt)
        ret.append({'label': label, 'rho': np.outer(v, v.conj()).astype(dt), 'ket': v})
    for a in range(d):
        pure('|%d>' % a, E[a])
    for a in range(d - 1):
        pure('|%d>+|%d>' % (a, a + 1), E[a] + E[a + 1])
        if not real:
            pure('|%d>+i|%d>' % (a, a + 1), E[a] + 1j * E[a + 1])
    if d > 1:
        ret.append({'label': '1/d', 'rho': (E / d).astype(dt), 'ket': None})
    for g in range(G if d > 1 else 0):
        v = rng.normal(size=d) + (0 if real else 1j * rng.normal(size=d))
        pure('pure_atom%d' % g, v)
        for rank, name in ((min(2, d), 'rank2'), (d, 'full')):
            a = rng.normal(size=(d, rank)) + (0 if real else 1j * rng.normal(size=(d, rank)))
            m = a @ a.conj().T
            ret.append({'label': '%s_atom%d' % (name, g), 'rho': (m / np.trace(m).real).astype(dt), 'ket': None})
    return ret


# ------------------------------------------------------------------------------------------------ helpers
def to_np(y):
    if hasattr(y, 'detach'):
        y = y.detach().cpu().numpy()
    return np.asarray(y)


def scalar(y):
    y = to_np(y)
    if y.shape != ():
        y = y.reshape(-1)
        if y.size != 1:
            raise ValueError('not a scalar: shape %s' % (y.shape,))
        y = y[0]
    return complex(y)


def as_backend(x, backend):
    if backend == 'torch':
        import torch
        return torch.from_numpy(np.ascontiguousarray(x))
    return x


class Ctx:
    def __init__(self, out, case, chan, din, dout, nk):
        self.out, self.case, self.chan, self.din, self.dout, self.nk = out, case, chan, din, dout, nk

    def detail(self, **kw):
        ret = {'d_in': self.din, 'd_out': self.dout, 'n_K': self.nk, 'channel': self.chan['label']}
        if 'K' in self.chan:
            ret['kraus_op'] = self.chan['K']
        else:
            ret['choi_op'] = self.chan['C']
        ret.update(kw)
        return ret


def call(ctx, site, fname, fn, *args, suffix='', **kw):
    """one numqi call on an admissible input; any exception is a violation. returns (ok, value)"""
    ctx.out.trans()
    try:
        return True, fn(*args, **kw)
    except Exception as e:  # noqa
        ctx.out.violation('%s/%s%s/%s' % (site, fname, suffix, type(e).__name__),
                          '%s raised %s on an admissible input (d_in=%d, d_out=%d, n_K=%d, channel %s): %s'
                          % (fname, type(e).__name__, ctx.din, ctx.dout, ctx.nk, ctx.chan['label'], str(e)[:200]),
                          **ctx.detail(args=[to_np(a) for a in args if hasattr(a, 'shape')]))
        return False, None


def finite_array(ctx, site, fname, y, shape, suffix=''):
    yn = to_np(y)
    if yn.shape != tuple(shape):
        ctx.out.violation('%s/%s%s/shape' % (site, fname, suffix), '%s returned shape %s, expected %s (d_in=%d, d_out=%d, n_K=%d)'
                          % (fname, yn.shape, tuple(shape), ctx.din, ctx.dout, ctx.nk), **ctx.detail())
        return None
    if not np.all(np.isfinite(yn)):
        ctx.out.violation('%s/%s%s/nonfinite' % (site, fname, suffix), '%s returned NaN/Inf' % fname, **ctx.detail(got=yn))
        return None
    return yn.astype(np.complex128)


# ------------------------------------------------------------------------------------------------ conv: the conversion tree
APPLY = {'K': 'apply_kraus_op', 'C': 'apply_choi_op', 'S': 'apply_super_op'}
EDGES = {
    'K': [('kraus_op_to_choi_op', 'C', 0), ('kraus_op_to_super_op', 'S', 0)],
    'C': [('choi_op_to_kraus_op', 'K', 1), ('choi_op_to_super_op', 'S', 0)],
    'S': [('super_op_to_choi_op', 'C', 0), ('super_op_to_kraus_op', 'K', 1)],
}


def n_tree_nodes(L):
    return sum(2 ** k for k in range(0, L + 1))


def convert(ctx, ch, fname, obj, din):
    fn = getattr(ch, fname)
    if fname in ('choi_op_to_kraus_op', 'choi_op_to_super_op'):
        return call(ctx, 'conv', fname, fn, obj, din)
    return call(ctx, 'conv', fname, fn, obj)


def check_node(ctx, ch, typ, obj, made_by, steps, n_eig, inputs, refs, Cref, Sref, dropped, path, suffix=''):
    """representation check + apply check of one node. returns True if the node is sound (may be expanded)."""
    out, din, dout, nk = ctx.out, ctx.din, ctx.dout, ctx.nk
    PhiE = ctx.chan['PhiE']
    out.state()
    t_rep = tol_lin(din, dout, nk, steps, n_eig, 1.0, dropped)
    # ---- (a) representation
    if typ == 'C':
        y = finite_array(ctx, 'conv', made_by, obj, (din * dout, din * dout), suffix)
        if y is None:
            return False
        err = np.abs(y - Cref)
        if err.max() > t_rep:
            k = tuple(int(v) for v in np.unravel_index(int(np.argmax(err)), err.shape))
            out.violation('conv/%s%s/wrong_representation' % (made_by, suffix),
                          '%s (path %s) is not the Choi operator C[(i,o),(j,p)] = Phi(E_ij)[o,p] of the channel: |err|=%.3g > tol=%.3g at entry %s '
                          '(d_in=%d, d_out=%d, n_K=%d, channel %s)' % (made_by, '>'.join(path), err.max(), t_rep, k, din, dout, nk, ctx.chan['label']),
                          **ctx.detail(path=path, got=y, expected=Cref, tol=t_rep))
            return False
    elif typ == 'S':
        y = finite_array(ctx, 'conv', made_by, obj, (dout * dout, din * din), suffix)
        if y is None:
            return False
        err = np.abs(y - Sref)
        if err.max() > t_rep:
            k = tuple(int(v) for v in np.unravel_index(int(np.argmax(err)), err.shape))
            out.violation('conv/%s%s/wrong_representation' % (made_by, suffix),
                          '%s (path %s) is not the super-operator S[(o,p),(i,j)] = Phi(E_ij)[o,p] of the channel: |err|=%.3g > tol=%.3g at entry %s '
                          '(d_in=%d, d_out=%d, n_K=%d, channel %s)' % (made_by, '>'.join(path), err.max(), t_rep, k, din, dout, nk, ctx.chan['label']),
                          **ctx.detail(path=path, got=y, expected=Sref, tol=t_rep))
            return False
    else:
        yn = to_np(obj)
        if yn.ndim != 3 or yn.shape[1:] != (dout, din) or yn.shape[0] < 1:
            out.violation('conv/%s%s/shape' % (made_by, suffix), '%s returned shape %s, expected (n,%d,%d)' % (made_by, yn.shape, dout, din), **ctx.detail(path=path))
            return False
        if not np.all(np.isfinite(yn)):
            out.violation('conv/%s%s/nonfinite' % (made_by, suffix), '%s returned NaN/Inf Kraus operators' % made_by, **ctx.detail(path=path, got=yn))
            return False
        if made_by != 'root':
            got = ref_phiE(yn)
            err = np.abs(got - PhiE)
            if err.max() > t_rep:
                comp = np.abs(sum(x.conj().T @ x for x in yn.astype(np.complex128)) - np.eye(din)).max()
                out.violation('conv/%s%s/wrong_representation' % (made_by, suffix),
                              '%s (path %s): the returned Kraus set does not implement the channel: |sum_s K_s E_ij K_s^+ - Phi(E_ij)|=%.3g > tol=%.3g; '
                              'completeness defect %.3g (d_in=%d, d_out=%d, n_K=%d, channel %s)'
                              % (made_by, '>'.join(path), err.max(), t_rep, comp, din, dout, nk, ctx.chan['label']),
                              **ctx.detail(path=path, got=yn, tol=t_rep))
                return False
            comp = np.abs(sum(x.conj().T @ x for x in yn.astype(np.complex128)) - np.eye(din)).max()
            if comp > t_rep:
                out.violation('conv/%s%s/kraus_not_complete' % (made_by, suffix), 'sum_s K_s^+ K_s differs from 1 by %.3g' % comp, **ctx.detail(path=path, got=yn))
                return False
            if yn.shape[0] > din * dout:
                out.count('kraus_sets_longer_than_dim_in_x_dim_out')
    # ---- (b) the node's own apply routine on the complete matrix-unit alphabet + atoms
    afn = getattr(ch, APPLY[typ])
    labels, mats, mats_backend = inputs
    sound = True
    outs = []
    for lab, X, Xb, R in zip(labels, mats, mats_backend, refs):
        ok, y = call(ctx, 'conv', APPLY[typ], afn, obj, Xb, suffix=suffix)
        if not ok:
            return False
        yn = finite_array(ctx, 'conv', APPLY[typ], y, (dout, dout), suffix)
        if yn is None:
            return False
        scale = float(np.abs(X).max())
        tol = tol_lin(din, dout, max(nk, to_np(obj).shape[0] if typ == 'K' else nk), steps + 1, n_eig, scale, dropped)
        err = np.abs(yn - R).max()
        if err > tol:
            out.violation('conv/%s%s/wrong_output' % (APPLY[typ], suffix),
                          '%s on input %s after path %s differs from sum_s K_s X K_s^+ although the representation is right: |err|=%.3g > tol=%.3g '
                          '(d_in=%d, d_out=%d, n_K=%d, channel %s)' % (APPLY[typ], lab, '>'.join(path), err, tol, din, dout, nk, ctx.chan['label']),
                          **ctx.detail(path=path, input=X, got=yn, expected=R, tol=tol, representation=to_np(obj)))
            sound = False
            break
        outs.append(np.round(yn, 6) + 0.0)
    if sound:
        rep = np.round(to_np(obj).astype(np.complex128), 6) if typ != 'K' else None
        z01 = Cref if rep is None else rep
        nontrivial = bool(np.any((np.abs(z01) > 1e-6) & (np.abs(z01 - 1) > 1e-6)))
        out.outcome((typ, din, dout, outs), nontrivial=nontrivial)
    return sound


def linearity_residual(ctx, ch, typ, obj, inputs, suffix=''):
    """f(a x1 + b x2) - a f(x1) - b f(x2) on two generic inputs, implementation only"""
    labels, mats, mats_backend = inputs
    if len(mats) < 2:
        return
    x1, x2 = mats[-1], mats[-2]
    real_only = not np.iscomplexobj(x1)
    a, b = (0.75, -1.25) if real_only else (0.75 - 0.5j, -1.25 + 0.375j)
    backend = 'torch' if hasattr(mats_backend[0], 'detach') else 'numpy'
    afn = getattr(ch, APPLY[typ])
    ys = []
    for x in (a * x1 + b * x2, x1, x2):
        ok, y = call(ctx, 'conv', APPLY[typ], afn, obj, as_backend(x, backend), suffix=suffix)
        if not ok:
            return
        ys.append(to_np(y).astype(np.complex128))
    res = np.abs(ys[0] - a * ys[1] - b * ys[2]).max()
    scale = abs(a) * np.abs(x1).max() + abs(b) * np.abs(x2).max()
    tol = 3 * tol_lin(ctx.din, ctx.dout, max(ctx.nk, ctx.din * ctx.dout), 1, 0, scale)
    if not (res <= tol):
        ctx.out.violation('conv/%s%s/not_linear' % (APPLY[typ], suffix), '%s is not linear in the state: residual %.3g > %.3g' % (APPLY[typ], res, tol),
                          **ctx.detail(x1=x1, x2=x2, a=a, b=b))


def run_tree(ctx, ch, L, inputs, refs, Cref, Sref, dropped, hf_depth=1):
    """DFS over all conversion paths of length <= L from the channel's root representation"""
    out, din, dout = ctx.out, ctx.din, ctx.dout
    chan = ctx.chan
    root_typ = chan['root']
    root_obj = chan['K'] if root_typ == 'K' else chan['C']
    labels, mats, mats_backend = inputs
    seen_apply = set()

    # breadth first: the shortest failing path is reported first; a node that failed is not expanded
    queue = [(root_typ, root_obj, 'root', 0, 0, [root_typ])]
    while queue:
        typ, obj, made_by, steps, n_eig, path = queue.pop(0)
        sound = check_node(ctx, ch, typ, obj, made_by, steps, n_eig, inputs, refs, Cref, Sref, dropped, path)
        if not sound:
            continue
        if typ not in seen_apply:
            seen_apply.add(typ)
            linearity_residual(ctx, ch, typ, obj, inputs)
        # hf_channel_to_* : the node's own apply routine as the callable
        if steps <= hf_depth:
            afn = getattr(ch, APPLY[typ])
            for fname, ttyp, ne in (('hf_channel_to_kraus_op', 'K', 1), ('hf_channel_to_choi_op', 'C', 0)):
                ok, y = call(ctx, 'conv', fname, getattr(ch, fname), (lambda r, _o=obj, _f=afn: _f(_o, r)), din)
                if not ok:
                    continue
                if fname == 'hf_channel_to_choi_op':
                    yn = to_np(y)
                    if yn.shape != (din, dout, din, dout):
                        out.violation('conv/hf_channel_to_choi_op/shape', 'hf_channel_to_choi_op returned shape %s, expected (in,out,in,out)=%s'
                                      % (yn.shape, (din, dout, din, dout)), **ctx.detail(path=path + [fname]))
                        continue
                    y = yn.reshape(din * dout, din * dout)
                if check_node(ctx, ch, ttyp, y, fname, steps + 1, n_eig + ne, inputs, refs, Cref, Sref, dropped, path + [fname]):
                    out.trace()
        if steps >= L:
            out.trace()
            continue
        for fname, ttyp, ne in EDGES[typ]:
            ok, y = convert(ctx, ch, fname, obj, din)
            if ok:
                queue.append((ttyp, y, fname, steps + 1, n_eig + ne, path + [fname]))


def reference_tables(chan, din, inputs):
    PhiE = chan['PhiE']
    Cref = phiE_to_choi(PhiE)
    Sref = phiE_to_super(PhiE)
    refs = [phi_from_phiE(PhiE, X) for X in inputs[1]]
    ev = np.linalg.eigvalsh((Cref + Cref.conj().T) / 2)
    dropped = float(ev[(ev > 0) & (ev < ZERO_EPS)].sum())
    return Cref, Sref, refs, dropped


def run_torch_nodes(ctx, ch, din, dout, nk, real, G, rng, Cref, Sref, dropped):
    """the functions that offer torch: kraus_op_to_choi_op, apply_kraus_op, apply_choi_op, apply_super_op (equal dtypes)"""
    import torch
    chan = ctx.chan
    labels, mats = input_alphabet(din, real, G, rng)
    dt = np.float64 if real else np.complex128
    matsb = [torch.from_numpy(np.ascontiguousarray(x.astype(dt))) for x in mats]
    inputs = (labels, mats, matsb)
    refs = [phi_from_phiE(chan['PhiE'], X) for X in mats]
    path = [chan['root']]
    if chan['root'] == 'K':
        Kt = torch.from_numpy(np.ascontiguousarray(chan['K'].astype(dt)))
        if not check_node(ctx, ch, 'K', Kt, 'root', 0, 0, inputs, refs, Cref, Sref, dropped, path, suffix='[torch]'):
            return
        linearity_residual(ctx, ch, 'K', Kt, inputs, suffix='[torch]')
        ok, Ct = call(ctx, 'conv', 'kraus_op_to_choi_op', ch.kraus_op_to_choi_op, Kt, suffix='[torch]')
        if not ok:
            return
        if not hasattr(Ct, 'detach'):
            ctx.out.violation('conv/kraus_op_to_choi_op[torch]/backend_mismatch', 'kraus_op_to_choi_op returned %s for a torch input' % type(Ct).__name__, **ctx.detail())
            return
        path = path + ['kraus_op_to_choi_op']
        steps = 1
    else:
        Ct = torch.from_numpy(np.ascontiguousarray(chan['C']))
        steps = 0
    made = 'kraus_op_to_choi_op' if steps else 'root'
    if real and steps and Ct.dtype.is_complex:
        ctx.out.count('torch_real_kraus_gives_complex_choi')
    if check_node(ctx, ch, 'C', Ct, made, steps, 0, inputs, refs, Cref, Sref, dropped, path, suffix='[torch]'):
        ctx.out.trace()
    St = torch.from_numpy(np.ascontiguousarray((Sref.real if real else Sref).astype(dt)))
    ctx.out.state()
    afn = ch.apply_super_op
    for lab, X, Xb, R in zip(labels, mats, matsb, refs):
        ok, y = call(ctx, 'conv', 'apply_super_op', afn, St, Xb, suffix='[torch]')
        if not ok:
            return
        yn = finite_array(ctx, 'conv', 'apply_super_op', y, (dout, dout), '[torch]')
        if yn is None:
            return
        tol = tol_lin(din, dout, nk, 1, 0, float(np.abs(X).max()), dropped)
        if np.abs(yn - R).max() > tol:
            ctx.out.violation('conv/apply_super_op[torch]/wrong_output', 'apply_super_op (torch) on input %s differs from sum_s K_s X K_s^+: |err|=%.3g'
                              % (lab, np.abs(yn - R).max()), **ctx.detail(input=X, got=yn, expected=R))
            return
    ctx.out.trace()


def zero_eps_edges(ctx, ch, site, Cref, Sref):
    """the C->K and S->K edges with the documented threshold argument zero_eps (keyword) over ZERO_EPS_ALPHABET, fed with the reference arrays.
    eigh is backward stable (docstring: |E| <= N eps |C|_2, |C|_2 <= d_in), so by Weyl a computed eigenvalue is within noise = C_SAFETY eps N d_in of
    a reference eigenvalue: the number of returned terms lies in [#{ev >= zero_eps + noise}, #{ev >= zero_eps - noise}] (one number whenever no
    reference eigenvalue is near the threshold) and the returned set reproduces the channel up to d_in * (sum of eigenvalues that may be dropped)."""
    out, din, dout, nk = ctx.out, ctx.din, ctx.dout, ctx.nk
    N = din * dout
    ev = np.linalg.eigvalsh((Cref + Cref.conj().T) / 2)
    noise = C_SAFETY * EPS * N * din
    for thr in ZERO_EPS_ALPHABET:
        if 'zero_eps' in PENDING:
            out.count('pending/zero_eps')
            continue
        lower, upper = int((ev >= thr + noise).sum()), int((ev >= thr - noise).sum())
        exact = lower == upper and not np.any((ev > thr / 100) & (ev < thr * 100))  # a factor 100 between threshold and eigenvalues
        dropped = float(ev[(ev > 0) & (ev < thr + noise)].sum())
        t_rep = tol_lin(din, dout, nk, 1, 1, 1.0, dropped)
        for fname, args in (('choi_op_to_kraus_op', (Cref, din)), ('super_op_to_kraus_op', (Sref,))):
            out.state()
            ok, y = call(ctx, site, fname, getattr(ch, fname), *args, suffix='[zero_eps]', zero_eps=thr)
            if not ok:
                continue
            yn = to_np(y)
            det = dict(zero_eps=thr, reference_choi_eigenvalues=ev, got=yn)
            if yn.ndim != 3 or yn.shape[1:] != (dout, din):
                out.violation('%s/%s[zero_eps]/shape' % (site, fname), '%s(zero_eps=%g) returned shape %s, expected (n,%d,%d)' % (fname, thr, yn.shape, dout, din), **ctx.detail(**det))
                continue
            if not np.all(np.isfinite(yn)):
                out.violation('%s/%s[zero_eps]/nonfinite' % (site, fname), '%s(zero_eps=%g) returned NaN/Inf Kraus operators' % (fname, thr), **ctx.detail(**det))
                continue
            out.count('zero_eps_count_exact' if exact else 'zero_eps_count_interval')
            if not (lower <= yn.shape[0] <= upper):
                out.violation('%s/%s[zero_eps]/wrong_number_of_terms' % (site, fname),
                              '%s(zero_eps=%g) returned %d Kraus terms; the reference Choi operator has between %d and %d eigenvalues >= zero_eps (+- %.3g) '
                              '(d_in=%d, d_out=%d, n_K=%d, channel %s)' % (fname, thr, yn.shape[0], lower, upper, noise, din, dout, nk, ctx.chan['label']), **ctx.detail(**det))
                continue
            err = np.abs(ref_choi_of_kraus(yn, din, dout) - Cref).max()  # Choi entries are the entries of Phi(E_ij)
            if err > t_rep:
                out.violation('%s/%s[zero_eps]/wrong_representation' % (site, fname),
                              '%s(zero_eps=%g): the returned Kraus set does not implement the channel: |sum_s K_s E_ij K_s^+ - Phi(E_ij)|=%.3g > tol=%.3g (dropped '
                              'eigenvalues sum to %.3g; d_in=%d, d_out=%d, n_K=%d, channel %s)' % (fname, thr, err, t_rep, dropped, din, dout, nk, ctx.chan['label']),
                              **ctx.detail(tol=t_rep, **det))
                continue
            out.outcome(('zero_eps', fname, thr, int(yn.shape[0])), nontrivial=yn.shape[0] < N)


def list_forms(ctx, ch, inputs, refs, Sref):
    """the Kraus set as a Python list of matrices for the two functions that only iterate over it (apply_kraus_op: numpy and torch; kraus_op_to_super_op)"""
    import torch
    out, din, dout, nk = ctx.out, ctx.din, ctx.dout, ctx.nk
    if 'kraus_list' in PENDING:
        out.count('pending/kraus_list')
        return
    K = ctx.chan['K']
    Kl = [np.ascontiguousarray(x) for x in K]
    out.state()
    ok, y = call(ctx, 'conv', 'kraus_op_to_super_op', ch.kraus_op_to_super_op, Kl, suffix='[list]')
    if ok:
        yn = finite_array(ctx, 'conv', 'kraus_op_to_super_op', y, (dout * dout, din * din), '[list]')
        t_rep = tol_lin(din, dout, nk, 1, 0, 1.0)
        if yn is not None and np.abs(yn - Sref).max() > t_rep:
            out.violation('conv/kraus_op_to_super_op[list]/wrong_representation', 'kraus_op_to_super_op of a list of %d Kraus matrices is not the super-operator of the channel: '
                          '|err|=%.3g > tol=%.3g (d_in=%d, d_out=%d, channel %s)' % (nk, np.abs(yn - Sref).max(), t_rep, din, dout, ctx.chan['label']),
                          **ctx.detail(got=yn, expected=Sref, tol=t_rep))
    labels, mats, _ = inputs
    for sfx, Kb, conv in (('[list]', Kl, lambda x: x), ('[list,torch]', [torch.from_numpy(x.astype(np.complex128)) for x in Kl],
                                                       lambda x: torch.from_numpy(np.ascontiguousarray(x.astype(np.complex128))))):
        out.state()
        for lab, X, R in zip(labels, mats, refs):
            ok, y = call(ctx, 'conv', 'apply_kraus_op', ch.apply_kraus_op, Kb, conv(X), suffix=sfx)
            if not ok:
                break
            yn = finite_array(ctx, 'conv', 'apply_kraus_op', y, (dout, dout), sfx)
            if yn is None:
                break
            tol = tol_lin(din, dout, nk, 1, 0, float(np.abs(X).max()))
            out.count('kraus_list_calls')
            if np.abs(yn - R).max() > tol:
                out.violation('conv/apply_kraus_op%s/wrong_output' % sfx, 'apply_kraus_op with the Kraus set given as a list, input %s, differs from sum_s K_s X K_s^+: |err|=%.3g > tol=%.3g '
                              '(d_in=%d, d_out=%d, n_K=%d, channel %s)' % (lab, np.abs(yn - R).max(), tol, din, dout, nk, ctx.chan['label']),
                              **ctx.detail(input=X, got=yn, expected=R, tol=tol))
                break


def run_conv(case, out, env):
    import numqi
    ch = numqi.channel
    din, dout, nk, real = case['din'], case['dout'], case['nk'], case['field'] == 'real'
    G, L = case['G'], case['L']
    rng = env.rng('conv', din, dout, nk, real)
    seed_base = int(env.rng('conv-seed', din, dout, nk, real).integers(0, 2**31 - 16))
    chans = channel_alphabet(din, dout, nk, real, G, rng, numqi, seed_base, out)
    labels, mats = input_alphabet(din, False, G, env.rng('conv-in', din))
    inputs = (labels, mats, mats)
    for chan in chans:
        ctx = Ctx(out, case, chan, din, dout, nk)
        Cref, Sref, refs, dropped = reference_tables(chan, din, inputs)
        run_tree(ctx, ch, L, inputs, refs, Cref, Sref, dropped)
        zero_eps_edges(ctx, ch, 'conv', Cref, Sref)
        if chan['root'] == 'K':
            list_forms(ctx, ch, inputs, refs, Sref)
        run_torch_nodes(ctx, ch, din, dout, nk, real and chan['root'] == 'K', G, env.rng('conv-in-torch', din, real), Cref, Sref, dropped)
    out.sample = {'kind': 'conv', 'd_in': din, 'd_out': dout, 'n_K': nk, 'field': case['field'], 'channels': [c['label'] for c in chans],
                  'inputs': labels[:2] + ['...'] + labels[-2:], 'tree_nodes_per_channel': n_tree_nodes(L), 'example_kraus_op': chans[min(3, len(chans) - 1)].get('K')}


# ------------------------------------------------------------------------------------------------ bloch
def bloch_state_alphabet(d, G, rng):
    sts = state_alphabet(d, False, G, rng)
    return [s['label'] for s in sts], [s['rho'].astype(np.complex128) for s in sts]


def run_bloch(case, out, env):
    import numqi
    ch, gm = numqi.channel, numqi.gellmann
    din, dout, nk, real = case['din'], case['dout'], case['nk'], case['field'] == 'real'
    G = case['G']
    rng = env.rng('conv', din, dout, nk, real)  # the same channels as the conv case
    seed_base = int(env.rng('conv-seed', din, dout, nk, real).integers(0, 2**31 - 16))
    chans = channel_alphabet(din, dout, nk, real, G, rng, numqi, seed_base)
    slabels, states = bloch_state_alphabet(din, G, env.rng('bloch-states', din))
    # two matrix products with Gell-Mann matrices (entries <= sqrt2), sums of <= d_in^2 resp. d_out^2 terms of Choi entries (|C| <= d_in)
    tol = C_SAFETY * EPS * (din * din + dout * dout + 2) * din * 4
    for chan in chans:
        ctx = Ctx(out, case, chan, din, dout, nk)
        PhiE = chan['PhiE']
        Cref = phiE_to_choi(PhiE)
        A_ref, b_ref = ref_bloch_map(PhiE)
        sources = [('reference_choi', Cref if not real else Cref.real.copy())]
        if chan['root'] == 'K':
            ok, Ci = call(ctx, 'bloch', 'kraus_op_to_choi_op', ch.kraus_op_to_choi_op, chan['K'])
            if ok and to_np(Ci).shape == Cref.shape and np.abs(to_np(Ci) - Cref).max() < tol:
                sources.append(('kraus_op_to_choi_op', Ci))
        else:
            sources.append(('rand_choi_op', chan['C']))
        for sname, C in sources:
            out.state()
            ok, ret = call(ctx, 'bloch', 'choi_op_to_bloch_map', ch.choi_op_to_bloch_map, C.reshape(din, dout, din, dout))
            if not ok:
                continue
            try:
                A, b = ret
                A, b = to_np(A), to_np(b)
            except Exception:
                out.violation('bloch/choi_op_to_bloch_map/shape', 'choi_op_to_bloch_map did not return (matA, vecb)', **ctx.detail())
                continue
            if A.shape != A_ref.shape or b.shape != b_ref.shape:
                out.violation('bloch/choi_op_to_bloch_map/shape', 'choi_op_to_bloch_map returned shapes %s, %s; expected %s, %s (d_in=%d, d_out=%d)'
                              % (A.shape, b.shape, A_ref.shape, b_ref.shape, din, dout), **ctx.detail())
                continue
            if not (np.all(np.isfinite(A)) and np.all(np.isfinite(b))):
                out.violation('bloch/choi_op_to_bloch_map/nonfinite', 'NaN/Inf in the Bloch map', **ctx.detail(matA=A, vecb=b))
                continue
            eA = np.abs(A - A_ref).max() if A.size else 0.0
            eb = np.abs(b - b_ref).max() if b.size else 0.0
            if eA > tol:
                k = tuple(int(v) for v in np.unravel_index(int(np.argmax(np.abs(A - A_ref))), A.shape))
                out.violation('bloch/choi_op_to_bloch_map/wrong_matA', 'matA differs from Tr(G_k Phi(G_l))/2: |err|=%.3g > tol=%.3g at %s (d_in=%d, d_out=%d, n_K=%d, channel %s, Choi from %s)'
                              % (eA, tol, k, din, dout, nk, chan['label'], sname), **ctx.detail(got=A, expected=A_ref, tol=tol))
                continue
            if eb > tol:
                out.violation('bloch/choi_op_to_bloch_map/wrong_vecb', 'vecb differs from Tr(G_k Phi(1))/(2 d_in): |err|=%.3g > tol=%.3g (d_in=%d, d_out=%d, n_K=%d, channel %s, Choi from %s)'
                              % (eb, tol, din, dout, nk, chan['label'], sname), **ctx.detail(got=b, expected=b_ref, tol=tol))
                continue
            out.outcome(('bloch', din, dout, np.round(A, 6) + 0.0, np.round(b, 6) + 0.0),
                        nontrivial=bool(np.any((np.abs(A) > 1e-6) & (np.abs(np.abs(A) - 1) > 1e-6))) or bool(np.any(np.abs(b) > 1e-6)))
            # the literal statement: Bloch vector in -> affine map -> state out, for a basis alphabet of states
            good = True
            for lab, rho in zip(slabels, states):
                out.state()
                R = phi_from_phiE(PhiE, rho)
                if din >= 2:
                    ok, r = call(ctx, 'bloch', 'dm_to_gellmann_basis', gm.dm_to_gellmann_basis, rho)
                    if not ok:
                        good = False
                        break
                    r = to_np(r).real
                else:
                    r = ref_bloch_of(rho)
                    out.count('d=1_bloch_vector_by_reference')
                s = A @ r + b
                via_ref = ref_dm_of_bloch(s, dout)
                outs = [('reference_decoder', via_ref)]
                if dout >= 2:
                    ok, y = call(ctx, 'bloch', 'gellmann_basis_to_dm', gm.gellmann_basis_to_dm, s)
                    if not ok:
                        good = False
                        break
                    outs.append(('gellmann_basis_to_dm', to_np(y)))
                else:
                    out.count('d=1_bloch_vector_by_reference')
                ok, y2 = call(ctx, 'bloch', 'apply_choi_op', ch.apply_choi_op, C, rho)
                if not ok:
                    good = False
                    break
                for dn, Y in outs:
                    e1 = np.abs(Y - R).max()
                    e2 = np.abs(Y - to_np(y2)).max()
                    if max(e1, e2) > 4 * tol:
                        out.violation('bloch/choi_op_to_bloch_map/wrong_output_state',
                                      'state rebuilt (%s) from matA r + vecb differs from Phi(rho) for rho=%s: |err vs reference|=%.3g, |err vs apply_choi_op|=%.3g '
                                      '(d_in=%d, d_out=%d, n_K=%d, channel %s)' % (dn, lab, e1, e2, din, dout, nk, chan['label']),
                                      **ctx.detail(rho=rho, got=Y, expected=R))
                        good = False
                        break
                if not good:
                    break
            if good:
                out.trace()
    out.sample = {'kind': 'bloch', 'd_in': din, 'd_out': dout, 'n_K': nk, 'field': case['field'], 'channels': [c['label'] for c in chans], 'states': slabels}


# ------------------------------------------------------------------------------------------------ contract
class Measures:
    """numqi.utils measures on one backend; every call is wrapped (exception on an admissible input = violation)"""

    def __init__(self, numqi, ctx, backend, site):
        self.u, self.ctx, self.backend, self.site = numqi.utils, ctx, backend, site
        self.sfx = '[torch]' if backend == 'torch' else ''

    def _scalar(self, fname, ok, y, **detail):
        if not ok:
            return None
        try:
            v = scalar(y)
        except Exception:
            self.ctx.out.violation('%s/%s%s/shape' % (self.site, fname, self.sfx), '%s did not return a scalar' % fname, **self.ctx.detail(**detail))
            return None
        if not np.isfinite(v) or abs(v.imag) > 1e-12:
            self.ctx.out.violation('%s/%s%s/nonfinite' % (self.site, fname, self.sfx), '%s returned %r for valid states' % (fname, v), **self.ctx.detail(**detail))
            return None
        return v.real

    def fidelity(self, a, b):
        ok, y = call(self.ctx, self.site, 'get_fidelity', self.u.get_fidelity, as_backend(a, self.backend), as_backend(b, self.backend), suffix=self.sfx)
        return self._scalar('get_fidelity', ok, y, rho=a, sigma=b)

    def trace_distance(self, a, b):
        # numpy only ("no torch-version")
        ok, y = call(self.ctx, self.site, 'get_trace_distance', self.u.get_trace_distance, a, b)
        return self._scalar('get_trace_distance', ok, y, rho=a, sigma=b)

    def as_numpy(self):
        ret = Measures.__new__(Measures)
        ret.u, ret.ctx, ret.backend, ret.site, ret.sfx = self.u, self.ctx, 'numpy', self.site, ''
        return ret

    def _arg(self, x, grad):
        t = as_backend(x, self.backend)
        if grad:  # a fresh leaf tensor that requires grad (torch only)
            t = t.clone().requires_grad_(True)
        return t

    def relative_entropy(self, a, b, grad='', **opt):
        """opt: tr_rho_log_rho=float, _torch_logm='eigen'|('pade',s,m); grad: subset of 'rs' (rho / sigma require grad)"""
        ok, y = call(self.ctx, self.site, 'get_relative_entropy', self.u.get_relative_entropy, self._arg(a, 'r' in grad), self._arg(b, 's' in grad),
                     suffix=self.sfx, **opt)
        return self._scalar('get_relative_entropy', ok, y, rho=a, sigma=b, grad=grad, options=repr(opt))

    def entropy(self, a, grad=False, **opt):
        ok, y = call(self.ctx, self.site, 'get_von_neumann_entropy', self.u.get_von_neumann_entropy, self._arg(a, grad), suffix=self.sfx, **opt)
        return self._scalar('get_von_neumann_entropy', ok, y, rho=a, grad=grad, options=repr(opt))

    def entropy_batch(self, stack, shape, grad=False, **opt):
        """get_von_neumann_entropy on a batch (..., d, d); returns the float array of the documented batch shape or None"""
        fname = 'get_von_neumann_entropy'
        ok, y = call(self.ctx, self.site, fname, self.u.get_von_neumann_entropy, self._arg(stack, grad), suffix=self.sfx, **opt)
        if not ok:
            return None
        yn = to_np(y)
        if yn.shape != tuple(shape):
            self.ctx.out.violation('%s/%s%s/batch_shape' % (self.site, fname, self.sfx), '%s returned shape %s for a batch of shape %s, expected %s'
                                   % (fname, yn.shape, stack.shape, tuple(shape)), **self.ctx.detail(rho=stack, options=repr(opt)))
            return None
        if not np.all(np.isfinite(yn)) or (np.iscomplexobj(yn) and np.abs(yn.imag).max() > 1e-12):
            self.ctx.out.violation('%s/%s%s/nonfinite' % (self.site, fname, self.sfx), '%s returned %r for a batch of valid states' % (fname, yn),
                                   **self.ctx.detail(rho=stack, options=repr(opt)))
            return None
        return yn.real.astype(np.float64)


def state_invariants(ms, out, ctx, site, label, rho, d, full_grid=True):
    """entropy in [0, log d]"""
    S = ms.entropy(rho)
    if S is None:
        return None
    t = tol_S(d)
    if S < -t or S > np.log(d) + t:
        out.violation('%s/get_von_neumann_entropy%s/out_of_range' % (site, ms.sfx), 'entropy %.12g of state %s is outside [0, log %d = %.12g] (tol %.3g)'
                      % (S, label, d, np.log(d), t), **ctx.detail(rho=rho, got=S))
    if ms.backend == 'torch' and full_grid is not None:
        # option axis (requires_grad, _torch_logm): the forward value does not depend on it. 'pade' is used only when the state requires grad.
        # (complete grid on the input alphabet; grad + ('pade',6,8) on every channel output)
        for grad in (False, True) if full_grid else (True,):
            for logm in (LOGM_DEFAULT,) if not (grad and full_grid) else ('eigen', LOGM_DEFAULT, LOGM_ALPHABET[-1]):
                v = ms.entropy(rho, grad=grad, _torch_logm=logm)
                pade = grad and logm != 'eigen'
                tt = 2 * t + (tol_pade(d, logm[1], logm[2], 0.0, True) if pade else 0.0)
                out.count('entropy_option_calls[%s]' % ('pade' if pade else 'eigen'))
                if v is not None and abs(v - S) > tt:
                    out.violation('%s/get_von_neumann_entropy[torch]/%s' % (site, 'grad_pade_differs' if pade else 'option_eigen_differs'),
                                  'entropy of state %s with requires_grad=%s, _torch_logm=%r is %.15g but %.15g without options (tol %.3g)'
                                  % (label, grad, logm, v, S, tt), **ctx.detail(rho=rho, got=v, expected=S, requires_grad=grad, _torch_logm=repr(logm)))
    return S


def relative_entropy_options(ms, out, ctx, site, pair, ra, rb, r, d, full_grid, kappas=None):
    """option axes of get_relative_entropy on one pair with finite relative entropy r (the default call on ms.backend)"""
    ev_s = ref_eigh_psd(rb)[0]
    k = 1.0 / ref_lmin_plus(rb)
    tR = tol_R(d, *(kappas if kappas is not None else [k]))
    # tr_rho_log_rho = Tr rho log rho supplied by the caller ("if None, calculate it"): the same value. The two calls share the log sigma term;
    # the supplied (reference) and the internally computed Tr rho log rho differ by at most tol_S(d), which tol_R contains.
    if 'tr_rho_log_rho' in PENDING:
        out.count('pending/tr_rho_log_rho')
    else:
        trr = ref_tr_rho_log_rho(ra)
        v = ms.relative_entropy(ra, rb, tr_rho_log_rho=trr)
        out.count('tr_rho_log_rho_calls')
        if v is not None and abs(v - r) > tR:
            out.violation('%s/get_relative_entropy%s/tr_rho_log_rho_differs' % (site, ms.sfx),
                          'relative entropy of (%s, %s) is %.15g with tr_rho_log_rho=%.15g supplied but %.15g when it is computed (tol %.3g)'
                          % (pair[0], pair[1], v, trr, r, tR), **ctx.detail(rho=ra, sigma=rb, tr_rho_log_rho=trr, got=v, expected=r, tol=tR))
    if ms.backend != 'torch':
        return
    # torch inputs that require grad take the Pade matrix logarithm of sigma (default) or the eigen path ('eigen'): same forward value as numpy.
    # Full-rank sigma only (the truncation bound of tol_pade needs lambda_min(sigma) > 0; 1/lambda_min <= KAPPA_CAP).
    if 'grad_logm' in PENDING:
        out.count('pending/grad_logm')
        return
    if ev_s[0] <= 1.0 / KAPPA_CAP:
        out.count('grad_options_skipped(sigma singular or ill conditioned)')
        return
    r_np = ms.as_numpy().relative_entropy(ra, rb)
    if r_np is None:
        return
    grid = [(g, m) for g in GRAD_ALPHABET for m in LOGM_ALPHABET] if full_grid else [('rs', None)]
    for g, logm in grid:
        eff = LOGM_DEFAULT if logm is None else logm
        v = ms.relative_entropy(ra, rb, grad=g, **({} if logm is None else {'_torch_logm': logm}))
        pade = eff != 'eigen'
        out.count('grad_option_calls[%s]' % ('pade' if pade else 'eigen'))
        tt = 2 * tR + (tol_pade(d, eff[1], eff[2], float(ev_s[0]), False) if pade else 0.0)
        if v is not None and abs(v - r_np) > tt:
            out.violation('%s/get_relative_entropy[torch]/%s' % (site, 'grad_pade_differs' if pade else 'grad_eigen_differs'),
                          'relative entropy of (%s, %s) with requires_grad on %r and _torch_logm=%s is %.15g but numpy gives %.15g (tol %.3g)'
                          % (pair[0], pair[1], g, 'default' if logm is None else repr(logm), v, r_np, tt),
                          **ctx.detail(rho=ra, sigma=rb, requires_grad=g, _torch_logm=repr(logm), got=v, expected=r_np, tol=tt))


def entropy_batches(ms, out, ctx, site, what, rhos, d):
    """get_von_neumann_entropy accepts (..., d, d) (its own assert): batches (n,d,d) and (1,n,d,d) equal the single calls element by element"""
    n = len(rhos)
    dt = np.result_type(*[r.dtype for r in rhos])
    stack = np.ascontiguousarray(np.stack([r.astype(dt) for r in rhos]))
    singles = [ms.entropy(r.astype(dt)) for r in rhos]
    if any(s is None for s in singles):
        return
    singles = np.array(singles)
    t = 2 * tol_S(d)
    forms = [('(n,d,d)', stack, (n,), False, {}), ('(1,n,d,d)', stack[None], (1, n), False, {})]
    if ms.backend == 'torch':
        forms.append(('(n,d,d),grad,pade', stack, (n,), True, {'_torch_logm': LOGM_DEFAULT}))
        forms.append(('(1,n,d,d),grad,pade', stack[None], (1, n), True, {'_torch_logm': LOGM_DEFAULT}))
    for fl, arr, shape, grad, opt in forms:
        y = ms.entropy_batch(arr, shape, grad=grad, **opt)
        out.count('entropy_batch_calls')
        if y is None:
            continue
        tt = t + (tol_pade(d, LOGM_DEFAULT[1], LOGM_DEFAULT[2], 0.0, True) if grad else 0.0)
        err = np.abs(y.reshape(-1) - singles)
        if err.max() > tt:
            k = int(np.argmax(err))
            out.violation('%s/get_von_neumann_entropy%s/batch_differs' % (site, ms.sfx), 'entropy of element %d of the batch %s of %s is %.15g but %.15g in a single call (tol %.3g)'
                          % (k, fl, what, y.reshape(-1)[k], singles[k], tt), **ctx.detail(rho=arr, got=y, expected=singles, form=fl))


def ref_trace_distance(rho, sigma):
    ev = np.linalg.eigvalsh((np.asarray(rho).astype(np.complex128) - np.asarray(sigma).astype(np.complex128)))
    return 0.5 * float(np.abs(ev).sum())


def pinsker(ms, out, ctx, site, la, lb, ra, rb, r, tol, cls):
    t = ref_trace_distance(ra, rb)
    out.trans()
    if np.isnan(r) or r < 2 * t * t - tol:
        out.violation('%s/get_relative_entropy%s/below_pinsker_bound/%s' % (site, ms.sfx, cls),
                      'S(%s||%s) = %.12g is below 2*T^2 = %.12g (reference trace distance %.6g; %s)' % (la, lb, r, 2 * t * t, t, cls),
                      **ctx.detail(rho=ra, sigma=rb, got=r))


def before_table(ms, out, ctx, site, sts, d):
    """all measures on ALL ordered pairs of the input alphabet + the symmetric / range / ket-form invariants of the fidelity"""
    n = len(sts)
    T = np.full((n, n), np.nan)
    F = np.full((n, n), np.nan)
    R = np.full((n, n), np.nan)
    tf = tol_F(d)
    for a in range(n):
        state_invariants(ms, out, ctx, site, sts[a]['label'], sts[a]['rho'], d)
    entropy_batches(ms, out, ctx, site, 'the input alphabet', [s['rho'] for s in sts], d)
    for a in range(n):
        for b in range(n):
            ra, rb = sts[a]['rho'], sts[b]['rho']
            v = ms.trace_distance(ra, rb)
            if v is not None:
                T[a, b] = v
                if v < -tol_T(d) or v > 1 + tol_T(d):
                    out.violation('%s/get_trace_distance/out_of_range' % site, 'trace distance %.12g of %s, %s outside [0,1]' % (v, sts[a]['label'], sts[b]['label']),
                                  **ctx.detail(rho=ra, sigma=rb))
            f = ms.fidelity(ra, rb)
            if f is not None:
                F[a, b] = f
                if f < -tf or f > 1 + tf:
                    out.violation('%s/get_fidelity%s/out_of_range' % (site, ms.sfx), 'fidelity %.12g of %s, %s is outside [0,1] (tol %.3g)'
                                  % (f, sts[a]['label'], sts[b]['label'], tf), **ctx.detail(rho=ra, sigma=rb, got=f))
                # the same two states given as kets where they are pure
                forms = []
                if sts[a]['ket'] is not None:
                    forms.append(('ket,dm', sts[a]['ket'], rb))
                if sts[b]['ket'] is not None:
                    forms.append(('dm,ket', ra, sts[b]['ket']))
                if sts[a]['ket'] is not None and sts[b]['ket'] is not None:
                    forms.append(('ket,ket', sts[a]['ket'], sts[b]['ket']))
                for fl, xa, xb in forms:
                    g = ms.fidelity(xa, xb)
                    if g is not None and abs(g - f) > tf:
                        out.violation('%s/get_fidelity%s/ket_vs_dm/%s' % (site, ms.sfx, fl),
                                      'fidelity of %s, %s given as (%s) is %.12g but %.12g for the two projectors' % (sts[a]['label'], sts[b]['label'], fl, g, f),
                                      **ctx.detail(rho=xa, sigma=xb, got=g, expected=f))
            if ref_support_nested(ra, rb):
                r = ms.relative_entropy(ra, rb)
                if r is not None:
                    R[a, b] = r
                    relative_entropy_options(ms, out, ctx, site, (sts[a]['label'], sts[b]['label']), ra, rb, r, d, True)
                    pinsker(ms, out, ctx, site, sts[a]['label'], sts[b]['label'], ra, rb, r, tol_R(d, 1.0 / ref_lmin_plus(rb)), 'nested')
            else:
                # the true value is +inf; the implementation clips the spectrum of sigma at eps and returns a large finite number.
                # Whatever it returns must still respect Pinsker's inequality S(rho||sigma) >= 2 T(rho,sigma)^2: replacing the zero
                # eigenvalues of sigma by eps gives a positive operator sigma' of trace 1+k*eps, and S(rho||sigma') >= -log Tr sigma'
                # + 2 T(rho, sigma'/Tr sigma')^2 >= 2 T^2 - 3*d*eps. (A value near 0 means the kernel of sigma no longer penalises rho.)
                out.count('outside_math_domain(relative entropy +inf)')
                r = ms.relative_entropy(ra, rb)
                if r is not None:
                    pinsker(ms, out, ctx, site, sts[a]['label'], sts[b]['label'], ra, rb, r, 1e3 * d * EPS, 'supports_not_nested')
    for a in range(n):
        for b in range(a + 1, n):
            if np.isfinite(F[a, b]) and np.isfinite(F[b, a]) and abs(F[a, b] - F[b, a]) > tf:
                out.violation('%s/get_fidelity%s/not_symmetric' % (site, ms.sfx), 'F(%s,%s)=%.12g but F(%s,%s)=%.12g' % (
                    sts[a]['label'], sts[b]['label'], F[a, b], sts[b]['label'], sts[a]['label'], F[b, a]), **ctx.detail(rho=sts[a]['rho'], sigma=sts[b]['rho']))
    return T, F, R


def contract_channel(numqi, out, ctx, site, ms, chan, sts, before, din, dout, backend, invertible):
    """one channel x all ordered pairs"""
    ch = numqi.channel
    T0, F0, R0 = before
    n = len(sts)
    PhiE = chan['PhiE']
    # outputs by the implementation (apply_kraus_op / apply_choi_op on the chosen backend), checked against the reference
    outs, routs = [], []
    for s in sts:
        R = phi_from_phiE(PhiE, s['rho'])
        if chan['root'] == 'K':
            op = chan['K'] if not np.iscomplexobj(s['rho']) or np.iscomplexobj(chan['K']) else chan['K'].astype(np.complex128)
            if backend == 'torch' and np.iscomplexobj(op) and not np.iscomplexobj(s['rho']):
                rho_in = s['rho'].astype(np.complex128)
            else:
                rho_in = s['rho']
            ok, y = call(ctx, site, 'apply_kraus_op', ch.apply_kraus_op, as_backend(op, backend), as_backend(rho_in, backend), suffix=ms.sfx)
        else:
            ok, y = call(ctx, site, 'apply_choi_op', ch.apply_choi_op, as_backend(chan['C'], backend), as_backend(s['rho'].astype(np.complex128), backend), suffix=ms.sfx)
        if not ok:
            return
        y = to_np(y)
        if y.shape != R.shape or not np.all(np.isfinite(y)) or np.abs(y - R).max() > tol_lin(din, dout, ctx.nk, 1, 0, 1.0):
            out.violation('%s/apply%s/wrong_output' % (site, ms.sfx), 'channel output differs from the reference (see the conv cases)', **ctx.detail(rho=s['rho']))
            return
        if not np.iscomplexobj(s['rho']) and not np.iscomplexobj(chan.get('K', 1j)):
            y = y.real.astype(np.float64) if np.iscomplexobj(y) else y
        outs.append(np.ascontiguousarray(y))
        routs.append(R)
    tT = tol_T(din) + tol_T(dout)
    tF = tol_F(din) + tol_F(dout)
    opts = max(din, dout) <= OPTS_DMAX
    if not opts:
        out.count('output_option_axes_not_enumerated(d > %d)' % OPTS_DMAX)
    for a in range(n):
        state_invariants(ms, out, ctx, site, 'Phi(%s)' % sts[a]['label'], outs[a], dout, full_grid=False if opts else None)
    entropy_batches(ms, out, ctx, site, 'the channel outputs', outs, dout)
    F1 = np.full((n, n), np.nan)
    for a in range(n):
        for b in range(n):
            out.state()
            la, lb = sts[a]['label'], sts[b]['label']
            det = dict(rho=sts[a]['rho'], sigma=sts[b]['rho'], pair=[la, lb])
            strict = False
            t1 = ms.trace_distance(outs[a], outs[b])
            if t1 is not None and np.isfinite(T0[a, b]):
                if t1 > T0[a, b] + tT:
                    out.violation('%s/get_trace_distance/increases' % site, 'trace distance grows under the channel: %.12g -> %.12g for (%s, %s) (d_in=%d, d_out=%d, n_K=%d, channel %s)'
                                  % (T0[a, b], t1, la, lb, din, dout, ctx.nk, chan['label']), **ctx.detail(before=T0[a, b], after=t1, **det))
                elif invertible and abs(t1 - T0[a, b]) > tT:
                    out.violation('%s/get_trace_distance/not_invariant_under_isometry' % site, 'trace distance changes under an isometry: %.12g -> %.12g for (%s, %s)'
                                  % (T0[a, b], t1, la, lb), **ctx.detail(before=T0[a, b], after=t1, **det))
                strict = strict or t1 < T0[a, b] - 1e-9
            f1 = ms.fidelity(outs[a], outs[b])
            if f1 is not None and np.isfinite(F0[a, b]):
                F1[a, b] = f1
                if f1 < F0[a, b] - tF:
                    out.violation('%s/get_fidelity%s/decreases' % (site, ms.sfx), 'fidelity drops under the channel: %.12g -> %.12g for (%s, %s) (d_in=%d, d_out=%d, n_K=%d, channel %s)'
                                  % (F0[a, b], f1, la, lb, din, dout, ctx.nk, chan['label']), **ctx.detail(before=F0[a, b], after=f1, **det))
                elif invertible and abs(f1 - F0[a, b]) > tF:
                    out.violation('%s/get_fidelity%s/not_invariant_under_isometry' % (site, ms.sfx), 'fidelity changes under an isometry: %.12g -> %.12g for (%s, %s)'
                                  % (F0[a, b], f1, la, lb), **ctx.detail(before=F0[a, b], after=f1, **det))
                if f1 < -tol_F(dout) or f1 > 1 + tol_F(dout):
                    out.violation('%s/get_fidelity%s/out_of_range' % (site, ms.sfx), 'fidelity %.12g of the channel outputs of %s, %s is outside [0,1]' % (f1, la, lb),
                                  **ctx.detail(got=f1, **det))
                strict = strict or f1 > F0[a, b] + 1e-9
            if np.isfinite(R0[a, b]):
                k0, k1 = 1.0 / ref_lmin_plus(sts[b]['rho']), 1.0 / ref_lmin_plus(routs[b])
                if max(k0, k1) > KAPPA_CAP:
                    out.count('skipped_ill_conditioned(relative entropy)')
                else:
                    r1 = ms.relative_entropy(outs[a], outs[b])
                    tR = C_SAFETY * EPS * max(din, dout) * (40.0 + k0 + k1)
                    if r1 is not None:
                        if r1 > R0[a, b] + tR:
                            out.violation('%s/get_relative_entropy%s/increases' % (site, ms.sfx), 'relative entropy grows under the channel: %.12g -> %.12g for (%s, %s) '
                                          '(d_in=%d, d_out=%d, n_K=%d, channel %s)' % (R0[a, b], r1, la, lb, din, dout, ctx.nk, chan['label']),
                                          **ctx.detail(before=R0[a, b], after=r1, tol=tR, **det))
                        elif invertible and abs(r1 - R0[a, b]) > tR:
                            out.violation('%s/get_relative_entropy%s/not_invariant_under_isometry' % (site, ms.sfx), 'relative entropy changes under an isometry: %.12g -> %.12g for (%s, %s)'
                                          % (R0[a, b], r1, la, lb), **ctx.detail(before=R0[a, b], after=r1, tol=tR, **det))
                        if r1 < -tR:
                            out.violation('%s/get_relative_entropy%s/negative' % (site, ms.sfx), 'relative entropy %.12g < 0 for the channel outputs of (%s, %s)' % (r1, la, lb),
                                          **ctx.detail(got=r1, **det))
                        if opts:
                            relative_entropy_options(ms, out, ctx, site, ('Phi(%s)' % la, 'Phi(%s)' % lb), outs[a], outs[b], r1, dout, False, kappas=[k1])
                        strict = strict or r1 < R0[a, b] - 1e-9
            out.outcome((din, dout, None if t1 is None else round(t1, 6), None if f1 is None else round(f1, 6)), nontrivial=strict)
    for a in range(n):
        for b in range(a + 1, n):
            if np.isfinite(F1[a, b]) and np.isfinite(F1[b, a]) and abs(F1[a, b] - F1[b, a]) > tol_F(dout):
                out.violation('%s/get_fidelity%s/not_symmetric' % (site, ms.sfx), 'F(Phi %s, Phi %s)=%.12g but %.12g with the arguments swapped'
                              % (sts[a]['label'], sts[b]['label'], F1[a, b], F1[b, a]), **ctx.detail(rho=outs[a], sigma=outs[b]))
    out.trace()


def run_contract(case, out, env):
    import numqi
    din, dout, nk, real, backend = case['din'], case['dout'], case['nk'], case['field'] == 'real', case['backend']
    G = case['G']
    rng = env.rng('conv', din, dout, nk, real)
    seed_base = int(env.rng('conv-seed', din, dout, nk, real).integers(0, 2**31 - 16))
    chans = channel_alphabet(din, dout, nk, real, G, rng, numqi, seed_base)
    sts = state_alphabet(din, real, G, env.rng('contract-states', din, real))
    ctx0 = Ctx(out, case, {'label': '(input alphabet)', 'K': np.eye(din)[None]}, din, din, 1)
    ms0 = Measures(numqi, ctx0, backend, 'contract')
    before = before_table(ms0, out, ctx0, 'contract', sts, din)
    for chan in chans:
        ctx = Ctx(out, case, chan, din, dout, nk)
        ms = Measures(numqi, ctx, backend, 'contract')
        invertible = chan['root'] == 'K' and nk == 1
        contract_channel(numqi, out, ctx, 'contract', ms, chan, sts, before, din, dout, backend, invertible)
    out.sample = {'kind': 'contract', 'd_in': din, 'd_out': dout, 'n_K': nk, 'field': case['field'], 'backend': backend,
                  'channels': [c['label'] for c in chans], 'states': [s['label'] for s in sts], 'ordered_pairs': len(sts) ** 2}


# ------------------------------------------------------------------------------------------------ noise
NOISE = ['hf_dephasing_kraus_op', 'hf_depolarizing_kraus_op', 'hf_amplitude_damping_kraus_op']


def rate_alphabet(tier):
    base = [0.0, 1e-9, 0.25, 0.5, 0.75, 1 - 1e-9, 1.0]
    if tier != 'quick':
        base += [k / 16 for k in range(1, 16)] + [1e-15, 1e-12, 1e-6, 1e-3, 1 / 3, 2 / 3, 1 - 1e-3, 1 - 1e-6, 1 - 1e-12, float(np.nextafter(1.0, 0.0)), 5e-324]
    base = sorted(set(base))
    ret = [('float', r) for r in base] + [('int', 0), ('int', 1)] + [('np.float64', r) for r in base] + [('np.float32', r) for r in (0.0, 0.25, 0.5, 1.0)]
    return ret


def make_rate(rt, r):
    if rt == 'float':
        return float(r)
    if rt == 'int':
        return int(r)
    if rt == 'np.float64':
        return np.float64(r)
    return np.float32(r)


def run_noise(case, out, env):
    import numqi
    ch = numqi.channel
    name, rt, r = case['name'], case['rate_type'], case['rate']
    rate = make_rate(rt, r)
    fn = getattr(ch, name)
    chan = {'label': '%s(%s(%r))' % (name, rt, r), 'root': 'K', 'K': np.zeros((1, 2, 2))}
    ctx = Ctx(out, case, chan, 2, 2, 0)
    out.state()
    ok, K = call(ctx, 'noise', name, fn, rate)
    if not ok:
        return
    K = to_np(K)
    if K.ndim != 3 or K.shape[1:] != (2, 2) or K.shape[0] < 1:
        out.violation('noise/%s/shape' % name, '%s(%r) returned shape %s' % (name, rate, K.shape), rate=r, rate_type=rt)
        return
    if not np.all(np.isfinite(K)):
        out.violation('noise/%s/nonfinite' % name, '%s(%r) contains NaN/Inf' % (name, rate), rate=r, rate_type=rt, got=K)
        return
    nk = K.shape[0]
    chan['K'] = K
    ctx.nk = nk
    # trace preserving: entries are sqrt(x) with x in [0,1]; sqrt(x)^2 has relative error 2 eps (eps of the rate's precision); sum of <= 4 terms
    eps_r = 1.2e-7 if rt == 'np.float32' else EPS  # a float32 rate: sqrt is evaluated in single precision
    tp = np.abs(sum(x.conj().T @ x for x in K.astype(np.complex128)) - np.eye(2)).max()
    if tp > 16 * eps_r:
        out.violation('noise/%s/not_trace_preserving' % name, '%s(%r): |sum K^+K - 1| = %.3g' % (name, rate, tp), rate=r, rate_type=rt, got=K)
        return
    # completely positive: Choi operator (numqi's own conversion) is Hermitian, PSD and has partial trace 1
    ok, C = call(ctx, 'noise', 'kraus_op_to_choi_op', ch.kraus_op_to_choi_op, K)
    if not ok:
        return
    C = to_np(C).astype(np.complex128)
    chan['PhiE'] = ref_phiE(K)
    Cref = phiE_to_choi(chan['PhiE'])
    if C.shape != (4, 4) or np.abs(C - Cref).max() > tol_lin(2, 2, nk, 1, 0, 1.0):
        out.violation('noise/kraus_op_to_choi_op/wrong_representation', 'Choi operator of %s(%r) is wrong' % (name, rate), rate=r, rate_type=rt, got=C, expected=Cref)
        return
    evmin = np.linalg.eigvalsh((C + C.conj().T) / 2)[0]
    ptr = np.einsum('iojo->ij', C.reshape(2, 2, 2, 2))
    if evmin < -C_SAFETY * EPS * 4 * 2 or np.abs(C - C.conj().T).max() > C_SAFETY * EPS or np.abs(ptr - np.eye(2)).max() > 16 * eps_r:
        out.violation('noise/%s/not_completely_positive' % name, 'Choi operator of %s(%r): min eigenvalue %.3g, partial-trace defect %.3g'
                      % (name, rate, evmin, np.abs(ptr - np.eye(2)).max()), rate=r, rate_type=rt, got=C)
        return
    out.outcome((name, np.round(C, 9) + 0.0), nontrivial=0 < float(r) < 1)
    out.trace()
    out.sample = {'kind': 'noise', 'name': name, 'rate': r, 'rate_type': rt, 'kraus_op': K}
    if rt == 'np.float32':
        return  # trace preserving only to single precision: the double-precision tree below would report that, not a defect
    # the conversion tree and the contraction alphabet on this channel
    G = case['G']
    labels, mats = input_alphabet(2, False, G, env.rng('conv-in', 2))
    inputs = (labels, mats, mats)
    Cref, Sref, refs, dropped = reference_tables(chan, 2, inputs)
    K64 = K.astype(np.complex128) if K.dtype not in (np.float64, np.complex128) else K
    chan['K'] = K64
    run_tree(ctx, ch, case['L'], inputs, refs, Cref, Sref, dropped, hf_depth=0)
    zero_eps_edges(ctx, ch, 'noise', Cref, Sref)
    sts = qubit_alphabet(G, env.rng('contract-states', 2, False))
    for backend in ('numpy', 'torch'):
        ms = Measures(numqi, ctx, backend, 'noise')
        key = ('before', backend, G, env.seed)
        if key not in _NOISE_BEFORE:
            ctx0 = Ctx(core.Out(), case, {'label': '(qubit alphabet)', 'K': np.eye(2)[None]}, 2, 2, 1)
            o0 = ctx0.out
            tab = before_table(Measures(numqi, ctx0, backend, 'noise'), o0, ctx0, 'noise', sts, 2)
            _NOISE_BEFORE[key] = (tab, o0)
        tab, o0 = _NOISE_BEFORE[key]
        if o0.violations:
            for v in o0.violations[:3]:
                out.violation(v['key'], v['what'], **v['detail'])
        contract_channel(numqi, out, ctx, 'noise', ms, chan, sts, tab, 2, 2, backend, False)
    out.sample = {'kind': 'noise', 'name': name, 'rate': r, 'rate_type': rt, 'kraus_op': K}


_NOISE_BEFORE = {}


def qubit_alphabet(G, rng):
    """{0,1,+,-,+i,-i} projectors, maximally mixed, generic atoms"""
    ret = []
    s = 1 / np.sqrt(2)
    for lab, v in (('|0>', [1, 0]), ('|1>', [0, 1]), ('|+>', [s, s]), ('|->', [s, -s]), ('|+i>', [s, 1j * s]), ('|-i>', [s, -1j * s])):
        v = np.array(v, dtype=np.complex128)
        ret.append({'label': lab, 'rho': np.outer(v, v.conj()), 'ket': v})
    ret.append({'label': '1/2', 'rho': np.eye(2, dtype=np.complex128) / 2, 'ket': None})
    for g in range(G):
        v = rng.normal(size=2) + 1j * rng.normal(size=2)
        v = v / np.linalg.norm(v)
        ret.append({'label': 'pure_atom%d' % g, 'rho': np.outer(v, v.conj()), 'ket': v})
        a = rng.normal(size=(2, 2)) + 1j * rng.normal(size=(2, 2))
        m = a @ a.conj().T
        ret.append({'label': 'full_atom%d' % g, 'rho': m / np.trace(m).real, 'ket': None})
    return ret


# ------------------------------------------------------------------------------------------------ cases
def triples(D):
    ret = []
    for din in range(1, D + 1):
        for dout in range(1, D + 1):
            for nk in range(min_terms(din, dout), din * dout + 1):
                ret.append((din, dout, nk))
    ret.sort(key=lambda t: (t[0] * t[1] * t[2], t))
    return ret


def build_cases(tier, seed):
    quick = tier == 'quick'
    D = 4 if quick else 5
    Dc = 3 if quick else 5
    G = 2 if quick else 6
    Gc = 2 if quick else 4
    L = 4 if quick else 5
    cases = []
    for name in NOISE:
        for rt, r in rate_alphabet(tier):
            cases.append({'kind': 'noise', 'name': name, 'rate_type': rt, 'rate': r, 'G': G, 'L': 3})
    tr = triples(D)
    for din, dout, nk in tr:
        for field in ('real', 'complex'):
            cases.append({'kind': 'conv', 'din': din, 'dout': dout, 'nk': nk, 'field': field, 'G': G, 'L': L})
    for din, dout, nk in tr:
        for field in ('real', 'complex'):
            cases.append({'kind': 'bloch', 'din': din, 'dout': dout, 'nk': nk, 'field': field, 'G': G})
    for din, dout, nk in triples(Dc):
        for field in ('real', 'complex'):
            for backend in ('numpy', 'torch'):
                cases.append({'kind': 'contract', 'din': din, 'dout': dout, 'nk': nk, 'field': field, 'backend': backend, 'G': Gc})
    info = {
        'dims': [1, D], 'dims_contract': [1, Dc], 'n_K': 'ceil(d_in/d_out) .. d_in*d_out (all)', 'fields': ['real', 'complex'],
        'triples(d_in,d_out,n_K)': len(tr), 'isometry_alphabet': ['id', 'shift', 'fourier|hartley'] + ['atom%d' % g for g in range(G)],
        'extra_channels': ['mixed (rank-deficient, redundant Kraus set)', 'rand_kraus_op x%d' % min(G, 2), 'rand_choi_op(rank=n_K) (complex)'],
        'conversion_path_length': L, 'tree_nodes_per_channel': n_tree_nodes(L), 'hf_channel_edges_from_depth<=': 1,
        'generic_atoms': G, 'generic_atoms_contract': Gc, 'backends': ['numpy', 'torch'],
        'noise_rates': sorted({r for _, r in rate_alphabet(tier)}), 'noise_rate_types': ['float', 'int', 'np.float64', 'np.float32'],
        'property_quantifier_dims': [1, 5],
        'zero_eps_alphabet': ZERO_EPS_ALPHABET, 'torch_logm_alphabet': ['eigen', 'default=%r' % (LOGM_DEFAULT,), repr(LOGM_ALPHABET[-1])],
        'requires_grad_alphabet': ['none'] + GRAD_ALPHABET, 'tr_rho_log_rho': ['None', 'reference value'],
        'entropy_batch_forms': ['(n,d,d)', '(1,n,d,d)'], 'kraus_set_forms': ['array', 'list of matrices'], 'pending': sorted(PENDING),
        'exhaustive': True,
        'note': ('exhaustive within the stated bounds: every (d_in,d_out,n_K,field) x channel alphabet x conversion path of length <= %d x '
                 'complete matrix-unit alphabet is executed; this tier covers d_in,d_out = 1..%d (the property quantifies 1..5). The statement '
                 'for all input states follows from linearity (assumption 2); contractivity is a statement about the enumerated pairs only.' % (L, D)),
    }
    return cases, info


def run_case(case, out, env):
    import numqi  # noqa
    kind = case['kind']
    if kind == 'conv':
        run_conv(case, out, env)
    elif kind == 'bloch':
        run_bloch(case, out, env)
    elif kind == 'contract':
        run_contract(case, out, env)
    elif kind == 'noise':
        run_noise(case, out, env)
    else:
        raise ValueError(kind)
