"""C19 - shipped quantum codes satisfy Knill-Laflamme and their listed stabilizers   (mode H over error weight + finite domains)

Spaces (DESIGN.md section 4, C19):
  qecc_str : parse_str_qecc on the names of all shipped codes and a small product alphabet of ((n,K,d)) / ((n,K,de(w)=d)).
  parse    : parse_simple_pauli, both notations x both return modes, on a complete string alphabet
             (compact: ALL strings over {I,X,Y,Z} up to a length bound; indexed: ALL ordered sequences of up to T terms
             <letter><index> with pairwise distinct indices from an index alphabet, plus a two-digit-index alphabet).
             Circuit mode: the returned circuit, applied to ALL computational basis states, is the Pauli string.
             List mode: the returned (matrix, index) list is the list of non-identity factors.
  errlist  : make_error_list(n, d, op_list, tag_full) for all n <= N, 2 <= d <= D, three operator alphabets: every Pauli
             string of weight 1..d-1 exactly once and nothing else (reference: filter over all 4^n strings); the
             tag_full matrices are the kron-embedded operators, in the same order.
  asym     : make_asymmetric_error_set(n, d, w_z) for the same (n, d) and d = 1, all w_z of a dyadic alphabet and of a
             non-dyadic one (0.1, 0.3, 1/3, 0.6: bound decided in exact rationals): exactly the non-identity strings with
             n_x + n_y + w_z n_z < d, each once; the call without w_z == the call with w_z = 1 == make_error_list.
  asym_count: the same for n = 8 .. 12, d = 1 .. 4 (every configuration below an element cap): complete / unique / nothing
             else by counting the strings of each class (n_x, n_y, n_z) against the multinomial coefficients.
  ipvar    : knill_laflamme_inner_product on generic atoms given as Fortran-ordered / strided / complex64 / real float64 /
             float32 arrays and as transposed / conjugate-view / complex64 / real torch tensors (check_stabilizer: list of
             vectors, Fortran, strided, complex64, real code words - in the `code` case).
  code     : per shipped code: header fields, code words of generate_code_np(encode, K) against an independent
             gate-by-gate reference simulation, orthonormality, make_error_list(n, d) complete for the code's own (n, d),
             the listed stabilizer strings (read from the shipped source) commute pairwise and fix every code word,
             check_stabilizer() against the reference expectation values.
  stab     : per shipped stabilizer circuit: applied to ALL 2^n basis states it equals the listed Pauli string exactly,
             and it fixes every code word.
  kl       : per (code, root Pauli): breadth-first by weight - a transition multiplies the error by one more
             single-qubit Pauli on a higher qubit - over ALL errors of weight <= d-1 (Knill-Laflamme invariant
             <i|E|j> = c_E delta_ij at every node, computed by the reference through bit operations on amplitudes) and
             one level further (weight d: no invariant, only the differential comparison, so that the comparison of
             knill_laflamme_inner_product / knill_laflamme_loss with the reference is not vacuous: at weight d the
             matrices are not multiples of the identity and the loss is not zero).
  enum     : per code: Shor-Laflamme enumerators of the implementation's code words by an independent reference
             (Walsh-Hadamard over the Z part): sum rules, A_j <= B_j, A_j = B_j for j < d (a second, independent route
             to the distance); where affordable numqi.qec.quantum_weight_enumerator is compared entry by entry. The same
             for sub-codes cw[:K'] of the codes with n <= 6 (and ((8,8,3))[:5] in the thorough tier), K' = 3, 5 not a
             power of two (the zero-padding branch).
  ipgen    : knill_laflamme_inner_product (numpy and torch) on generic non-code atoms: fixes the conjugation / index
             convention <i|E|j> that real stabilizer amplitudes cannot see.

Oracle: Pauli action through bit operations on basis indices (qubit 0 = most significant bit, the library's documented
convention), gates of the encoding circuits re-simulated from their *names* with textbook matrices.

Tolerances (DESIGN 3.2, c * eps * kappa, c = 1e3, eps = 2.2e-16):
  amplitudes : a code word is the image of a basis state under G gates, each a unitary acting on 2 amplitudes at a time
               with entries of modulus <= 1: one gate perturbs an amplitude vector of norm 1 by at most gamma_4 ~ 4 eps in
               norm, unitaries do not amplify earlier errors, so |impl - ref|_inf <= 2 * 4 eps * G.  kappa = G + 1.
               (a Pauli error multiplies by 0, +-1, +-i and is exact.)
  inner prod.: <c_i|E|c_j> is a dot product of N = 2^n terms of unit vectors: forward error <= gamma_N <= N eps
               (no assumption on the summation order), plus the amplitude error of both factors.  kappa = N + 2 G.
  enumerators: A_j, B_j are sums of T_j = 3^j C(n,j) non-negative terms |Tr(E P)|^2 / K^2 resp. Tr(E P E P)/K, each a
               square of an inner-product-like quantity of magnitude <= K computed with the relative error above; the
               sum of non-negative terms adds gamma_{T_j}.  |A_j - ref| <= (2 (N + 2G) + T_j) eps * B_j-scale.
               kappa = (2 (N + 2 G) + T_j) * max(1, B_j^ref)   (B_j >= A_j bounds the magnitude of both).
  loss       : the loss is a sum of n_t = N_err (K(K-1)/2 + K) terms |m|^p, p in {1,2}, with |m| <= 1 and every m known to
               tol_ip: |L1 - ref| <= 2 n_t tol_ip (the mean over the diagonal moves by <= tol_ip as well),
               |L2 - ref| <= n_t (4 tol_ip + 4 tol_ip^2).
  Nothing is compared exactly except the finite-domain results (labels, counts, index lists) and the stabilizer
  circuits' action on basis states (products of entries 0, +-1, +-i are exact in floating point; compared with 1e3 eps G
  so that a repaired parser using other exact gates is not over-constrained).
"""
import ast
import collections
import fractions
import inspect
import itertools
import math
import textwrap

import numpy as np

from mc import ref

PROPERTY = 'C19'
GUARD = ['numqi.qec']  # argument-immutability oracle (mc.seams.ImmutabilityGuard)
LEVEL = 'model_checking'
RULE = ('state = one (code, Pauli error) node of the breadth-first tree by error weight / one (circuit, basis state) pair / one string of '
        'the parser alphabet / one (n, d, operator alphabet or w_z) configuration of an error-set generator (whose complete output is '
        'compared with the filter over all 4^n strings) / one code (code words, enumerators); transition = one tree edge (parent error -> child error '
        'by one more single-qubit Pauli on a higher qubit) at which the implementation\'s <i|E|j> matrix for the child was compared with the '
        'bit-operation reference, or one numqi call (apply_state on a basis state, parse_simple_pauli, make_error_list, '
        'make_asymmetric_error_set, generate_code*, generate_code_np, check_stabilizer, knill_laflamme_loss, quantum_weight_enumerator) '
        'whose complete result was compared; trace = one root-to-node path of the error tree / one string parsed in both modes / one '
        'circuit on the complete basis, with every step compared; non-trivial = the observed <i|E|j> matrix is not zero (c_E != 0 below the '
        'distance, or a Knill-Laflamme-violating matrix at weight d), the observed circuit is not the identity, the observed error set '
        'is not empty, the observed enumerator is not all zero. Additional coordinates: sub-codes cw[:K\'] (K\' = 1, 2, 3, 5) for the enumerators; '
        'distance 1, the default weight_z, non-dyadic weights (exact rational reference) and n = 8..12 (class counting) for '
        'make_asymmetric_error_set; argument forms (memory layout, dtype, torch views, list of vectors) of knill_laflamme_inner_product / '
        'check_stabilizer; the empty string and zero-padded indices for parse_simple_pauli')
ASSUMPTIONS = [
    'qubit 0 is the most significant bit of the basis index (documented convention of numqi.sim); a Pauli string s_0 s_1 .. s_{n-1} '
    'denotes kron(s_0, .., s_{n-1})',
    'the shipped codes and their parameters are the eight ((n,K,d)) of the property text; the *listed* stabilizer strings are read '
    'from the source of numqi.qec._qecc.generate_code* (list literal of n-letter strings over IXYZ) - a transcribed table is only the '
    'fall-back if the source cannot be parsed (counted as listed_strings_from_pinned_table)',
    'the encoding circuits are re-simulated from the gate *names* (H, cnot, cy, cz with control = first argument) with textbook '
    'matrices; an unknown gate name falls back to the gate\'s own array (counted)',
    'indexed Pauli strings with a repeated index (X0Z0) have no documented meaning and are outside the alphabet',
    'dyadic w_z: n_x + n_y + w_z n_z < d is decided exactly in floating point by implementation and reference alike; non-dyadic w_z '
    '(0.1, 0.3, 1/3, 0.6) denote the exact rational - the reference decides the bound in fractions.Fraction, numqi receives the nearest float',
    'for n >= 8 the asymmetric error set is not compared with a filter over 4^n strings but class by class: distinct well-formed strings of '
    'an admissible class (n_x, n_y, n_z) that number the multinomial coefficient are the whole class',
    'a sub-code spanned by the first K\' code words of an ((n,K,d)) code is an ((n,K\',>=d)) code; K\' in {1, 2, 3} (n <= 6) and 5 (n = 8, thorough)',
    'single-precision inputs (complex64, float32) may be processed in single precision: tolerance c * 2^-23 * kappa against the reference on '
    'the rounded amplitudes; nested python lists as code words are not a documented form',
    'weight enumerators through numqi are compared for n <= 6 (quick) and n <= 8 (thorough); for (10,4,4) and (11,2,5) only the '
    'reference enumerator of the implementation\'s code words is evaluated (the monolithic numqi routine needs 16 min resp. > 1 h)',
    'error weights above d, non-Pauli error operators, K not a power of two for knill_laflamme_inner_product (kind=\'exact\' precondition) '
    'and the variational models (VarQEC*) are outside the space; no function of numqi.qec other than quantum_weight_enumerator has a use_tqdm option',
]
CHUNK = 1

EPS = 2.220446049250313e-16
C_SAFE = 1e3

# (tag, n, K, d) - the shipped codes named by the property; the last one only in the thorough tier
CODES = [('422', 4, 2, 2), ('442', 4, 4, 2), ('523', 5, 2, 3), ('642', 6, 4, 2), ('883', 8, 8, 3), ('8_64_2', 8, 64, 2),
         ('10_4_4', 10, 4, 4), ('11_2_5', 11, 2, 5)]
CODE_BY_TAG = {c[0]: c for c in CODES}
NAME = {'422': '((4,2,2))', '442': '((4,4,2))', '523': '((5,2,3))', '642': '((6,4,2))', '883': '((8,8,3))',
        '8_64_2': '((8,64,2))', '10_4_4': '((10,4,4))', '11_2_5': '((11,2,5))'}
# fall-back only (see ASSUMPTIONS): transcription of the strings listed in the pinned source
PINNED_STRINGS = {
    '523': ['XIYXX', 'IXXZX', 'ZIXYZ', 'IZZXZ'],
    '422': ['XZII', 'ZXZZ', 'IIXX'],
    '442': ['XZZX', 'ZXXZ'],
    '642': ['XZXZZX', 'ZXZXXZ'],
    '883': ['XIZIYZXY', 'IXZZYXYI', 'IIXYZZYX', 'ZZZZXZZX'],
    '8_64_2': ['XZXXZZZX', 'ZXZZXXXZ'],
    '10_4_4': ['XIIIXIYXZY', 'IXIIYXYIZZ', 'IIXIIZZZXX', 'IIIXYXZYXI', 'ZIIIXYIYXX', 'IZIIIXZXYY', 'ZIIZIIXZZX', 'ZIZZZIZXYY'],
    '11_2_5': ['XIIIIZZZIXX', 'IXIIIZZYZIY', 'IIXIIZZXXZI', 'IIIXIZYIXXY', 'IIIIXZXIZZX',
               'IIZIIXYIYZZ', 'IZZIIIXZIXZ', 'IZIIZIZXXIZ', 'ZZZIZIIZXZX', 'IZIZIIZIZXX'],
}
N_STAB = {k: len(v) for k, v in PINNED_STRINGS.items()}

SITE_Q = 'qec/_qecc.py'
SITE_I = 'qec/_internal.py'
SITE_V = 'qec/_varqec.py'
K_PARSE_CIRC = SITE_Q + ':parse_simple_pauli/circuit_is_not_the_pauli_string'


def tol_amp(n_gate):
    return C_SAFE * EPS * (n_gate + 1)


def tol_ip(n, n_gate):
    return C_SAFE * EPS * (2 ** n + 2 * n_gate)


# ------------------------------------------------------------------ reference model
def qbit(n, q):
    """bit of qubit q (0 = most significant) for every basis index"""
    return (np.arange(1 << n) >> (n - 1 - q)) & 1


class PauliRef:
    """Pauli action through bit operations on basis indices: X_q psi[x] = psi[x ^ m_q], Z_q psi[x] = (-1)^{x_q} psi[x],
    Y_q psi[x] = (+i if x_q else -i) psi[x ^ m_q]   (Y = [[0,-i],[i,0]])."""

    def __init__(self, n):
        self.n = n
        idx = np.arange(1 << n)
        self.flip = [idx ^ (1 << (n - 1 - q)) for q in range(n)]
        self.zsign = [(1 - 2 * qbit(n, q)).astype(np.float64) for q in range(n)]
        self.yph = [np.where(qbit(n, q) == 1, 1j, -1j) for q in range(n)]

    def apply(self, psi, letter, q):
        """psi: (..., 2^n)"""
        if letter == 'X':
            return psi[..., self.flip[q]]
        if letter == 'Z':
            return psi * self.zsign[q]
        if letter == 'Y':
            return psi[..., self.flip[q]] * self.yph[q]
        if letter == 'I':
            return psi
        raise ValueError(letter)

    def apply_string(self, psi, s):
        assert len(s) == self.n
        for q, c in enumerate(s):
            if c != 'I':
                psi = self.apply(psi, c, q)
        return psi

    def apply_terms(self, psi, terms):
        for c, q in terms:
            psi = self.apply(psi, c, q)
        return psi


_PREF = {}


def pauli_ref(n):
    if n not in _PREF:
        _PREF[n] = PauliRef(n)
    return _PREF[n]


def ref_apply_1q(psi, U, q, n):
    """(K, 2^n) batch; U acts on qubit q"""
    K = psi.shape[0]
    t = psi.reshape(K, 1 << q, 2, 1 << (n - 1 - q))
    return np.einsum('ab,kxby->kxay', U, t).reshape(K, 1 << n)


def ref_apply_controlled(psi, U, controls, target, n):
    """U on `target` where all control bits are 1, identity elsewhere"""
    full = ref_apply_1q(psi, U, target, n)
    mask = np.ones(1 << n, dtype=bool)
    for c in controls:
        mask &= (qbit(n, c) == 1)
    return np.where(mask[None, :], full, psi)


REF_GATE = {'H': ref.H, 'X': ref.X, 'Y': ref.Y, 'Z': ref.Z, 'S': ref.S}
REF_CTRL = {'cnot': ref.X, 'cx': ref.X, 'cy': ref.Y, 'cz': ref.Z}


def ref_encode(circ, n, K, out):
    """re-simulate the encoding circuit from its gate names on |0..0 i>, i < K. Returns (K, 2^n)"""
    psi = np.zeros((K, 1 << n), dtype=np.complex128)
    psi[np.arange(K), np.arange(K)] = 1
    for gate, index in circ.gate_index_list:
        if gate.kind == 'unitary' and len(index) == 1:
            U = REF_GATE.get(gate.name)
            if U is None:
                out.count('reference_used_gate_array')
                U = np.asarray(gate.array, dtype=np.complex128)
            psi = ref_apply_1q(psi, U, int(index[0]), n)
        elif gate.kind == 'control' and len(index[1]) == 1:
            U = REF_CTRL.get(gate.name)
            if U is None:
                out.count('reference_used_gate_array')
                U = np.asarray(gate.array, dtype=np.complex128)
            psi = ref_apply_controlled(psi, U, sorted(int(c) for c in index[0]), int(index[1][0]), n)
        else:
            raise ValueError('encoding circuit contains a gate the reference does not model: %r %r' % (gate.kind, index))
    return psi


def wht(v):
    """Walsh-Hadamard transform over the last axis: out[..., b] = sum_x (-1)^{popcount(b & x)} v[..., x]"""
    N = v.shape[-1]
    lead = v.shape[:-1]
    h = 1
    while h < N:
        t = v.reshape(lead + (N // (2 * h), 2, h))
        a = t[..., 0, :]
        b = t[..., 1, :]
        v = np.stack([a + b, a - b], axis=-2).reshape(lead + (N,))
        h *= 2
    return v


_POP = {}


def popcount_table(n):
    if n not in _POP:
        idx = np.arange(1 << n)
        c = np.zeros(1 << n, dtype=np.int64)
        for k in range(n):
            c += (idx >> k) & 1
        _POP[n] = c
    return _POP[n]


def ref_enumerators(cw, n, route=None):
    """Shor-Laflamme enumerators of the code spanned by the orthonormal rows of cw (K, 2^n):
        A_j = K^-2 sum_{wt E = j} |Tr(E P)|^2,   B_j = K^-1 sum_{wt E = j} Tr(E P E^+ P) = K^-1 sum_E sum_ik |<c_i|E|c_k>|^2
    with E = X^a Z^b up to a phase; for every X part a the sum over all Z parts b is a Walsh-Hadamard transform. Two routes
    (chosen by cost, cross-checked against each other in prepare()):
      'words'    : <c_i| X^a Z^b |c_k> = sum_x (-1)^{b.x} conj(c_i[x ^ a]) c_k[x]                       cost K^2 n 2^n per a
      'projector': Tr(X^a Z^b P) = sum_x (-1)^{b.x} P[x, x^a]
                   Tr(X^a Z^b P Z^b X^a P) = sum_s (-1)^{b.s} g[s],  g[s] = sum_x P[x, x^s] P[x^s^a, x^a]   cost 4^n per a
    Returns A[0..n], B[0..n]."""
    K = cw.shape[0]
    N = 1 << n
    idx = np.arange(N)
    A = np.zeros(n + 1)
    B = np.zeros(n + 1)
    pop = popcount_table(n)
    if route is None:
        route = 'words' if K * K * n <= N else 'projector'
    if route == 'words':
        cc = cw.conj()
        for a in range(N):
            T = cc[:, None, idx ^ a] * cw[None, :, :]          # (K, K, N) over x
            W = wht(T)                                          # (K, K, N) over b
            bpart = (np.abs(W) ** 2).sum(axis=(0, 1))
            apart = np.abs(np.einsum('iib->b', W)) ** 2
            wt = pop[idx | a]
            A += np.bincount(wt, weights=apart, minlength=n + 1)
            B += np.bincount(wt, weights=bpart, minlength=n + 1)
    else:
        P = cw.T @ cw.conj()                                    # P[x, y] = sum_i c_i[x] conj(c_i[y])
        xs = idx[:, None] ^ idx[None, :]                        # xs[x, s] = x ^ s
        for a in range(N):
            f = P[idx, idx ^ a]
            g = (P[idx[:, None], xs] * P[xs ^ a, (idx ^ a)[:, None]]).sum(axis=0)
            apart = np.abs(wht(f)) ** 2
            bpart = wht(g).real
            wt = pop[idx | a]
            A += np.bincount(wt, weights=apart, minlength=n + 1)
            B += np.bincount(wt, weights=bpart, minlength=n + 1)
    return A / K ** 2, B / K


def all_strings(n, letters='IXYZ'):
    return [''.join(t) for t in itertools.product(letters, repeat=n)]


def weight(s):
    return sum(c != 'I' for c in s)


def label_to_string(label, n):
    s = ['I'] * n
    for q, c in label:
        s[q] = c
    return ''.join(s)


def string_to_label(s):
    return tuple((q, c) for q, c in enumerate(s) if c != 'I')


def label_text(label):
    return ''.join('%s%d' % (c, q) for q, c in label) or 'I'


def strings_commute(s, t):
    return sum((a != 'I') and (b != 'I') and (a != b) for a, b in zip(s, t)) % 2 == 0


def gf2_rank(strings):
    rows = []
    for s in strings:
        v = 0
        for k, c in enumerate(s):
            x = c in 'XY'
            z = c in 'ZY'
            v |= (int(x) << (2 * k)) | (int(z) << (2 * k + 1))
        rows.append(v)
    rank = 0
    rows = list(rows)
    while rows:
        r = rows.pop()
        if r == 0:
            continue
        rank += 1
        low = r & -r
        rows = [(x ^ r) if (x & low) else x for x in rows]
    return rank


def n_errors(n, w):
    return math.comb(n, w) * 3 ** w


# ------------------------------------------------------------------ reading the implementation's data structures
def op_letter(op, table=None):
    """which Pauli (or which entry of `table`) the operator matrix is, compared entry by entry; None if none"""
    op = np.asarray(op)
    if op.shape != (2, 2):
        return None
    for k, m in (table or ref.PAULI).items():
        if k != 'I' and np.array_equal(op.astype(np.complex128), m):
            return k
    return None


def error_label(err, n, table=None):
    """label ((q, letter), ...) sorted by qubit of one element of an error list, or None if malformed"""
    try:
        items = []
        for ind, op in err:
            if len(ind) != 1:
                return None
            q = int(ind[0])
            if not (0 <= q < n) or q != ind[0]:
                return None
            c = op_letter(op, table)
            if c is None:
                return None
            items.append((q, c))
    except Exception:
        return None
    if len({q for q, _ in items}) != len(items):
        return None
    return tuple(sorted(items))


def compare_error_set(out, site, labels, expected, detail):
    """labels: list of labels returned (None = malformed); expected: set of labels. Complete, unique, nothing else."""
    ok = True
    bad = [i for i, l in enumerate(labels) if l is None]
    if bad:
        out.violation(site + '/malformed_element', 'element %d of the error set is not a list of ([qubit], Pauli matrix) on distinct qubits' % bad[0],
                      n_malformed=len(bad), **detail)
        ok = False
    good = [l for l in labels if l is not None]
    seen = set()
    dup = []
    for l in good:
        if l in seen:
            dup.append(l)
        seen.add(l)
    qual = 'num_qubit<distance' if detail['num_qubit'] < detail['distance'] else 'num_qubit>=distance'
    if dup:
        out.violation('%s/duplicate_error/%s' % (site, qual), 'error %s is generated %d times' % (label_text(dup[0]), 1 + sum(l == dup[0] for l in dup)),
                      n_duplicates=len(dup), first=label_text(dup[0]), **detail)
        ok = False
    missing = sorted(expected - seen)
    if missing:
        out.violation('%s/missing_admissible_error/%s' % (site, qual),
                      '%d admissible Pauli errors are not generated, e.g. %s (returned %d elements, expected %d)'
                      % (len(missing), label_text(missing[0]), len(labels), len(expected)),
                      n_missing=len(missing), first_missing=[label_text(l) for l in missing[:8]], **detail)
        ok = False
    extra = sorted(seen - expected)
    if extra:
        out.violation('%s/inadmissible_error/%s' % (site, qual), '%d generated errors are outside the admissible set, e.g. %s' % (len(extra), label_text(extra[0])),
                      n_extra=len(extra), first_extra=[label_text(l) for l in extra[:8]], **detail)
        ok = False
    return ok


def listed_strings(numqi, tag, n, out):
    """the Pauli strings listed in the source of generate_code<tag> (list literal of n-letter strings over IXYZ)"""
    try:
        fn = getattr(numqi.qec._qecc, 'generate_code' + tag)
        tree = ast.parse(textwrap.dedent(inspect.getsource(fn)))
        cands = []
        for node in ast.walk(tree):
            if isinstance(node, ast.List) and node.elts and all(isinstance(e, ast.Constant) and isinstance(e.value, str) for e in node.elts):
                vals = [e.value for e in node.elts]
                if all(set(v) <= set('IXYZ') for v in vals):
                    cands.append(vals)
        if len(cands) == 1:
            return cands[0], 'source'
    except Exception:
        pass
    out.count('listed_strings_from_pinned_table')
    return list(PINNED_STRINGS[tag]), 'pinned'


def get_code(numqi, tag):
    return getattr(numqi.qec, 'generate_code' + tag)()


def pauli_on_basis(terms, n):
    """P |x> = ph[x] |tgt[x]> for P = product of single-qubit Paulis (letter, qubit) on pairwise distinct qubits:
    X_q|y> = |y^m>,  Z_q|y> = (-1)^{y_q}|y>,  Y_q|y> = i (-1)^{y_q} |y^m>   (distinct qubits: y_q is the original bit x_q)"""
    N = 1 << n
    tgt = np.arange(N)
    ph = np.ones(N, dtype=np.complex128)
    assert len({q for _, q in terms}) == len(terms)
    for c, q in terms:
        bit = qbit(n, q)
        if c in 'XY':
            tgt = tgt ^ (1 << (n - 1 - q))
        if c == 'Z':
            ph = ph * (1 - 2 * bit)
        elif c == 'Y':
            ph = ph * (1j * (1 - 2 * bit))
    return tgt, ph


def circuit_on_basis(circ, n, out, tgt, ph):
    """apply the circuit to every computational basis state |x> and compare with ph[x] |tgt[x]>.
    Returns dict(err[x] = max-norm deviation, obs_tgt, obs_val = position / value of the largest amplitude, identity flag)"""
    N = 1 << n
    err = np.zeros(N)
    obs_tgt = np.zeros(N, dtype=np.int64)
    obs_val = np.zeros(N, dtype=np.complex128)
    ident = True
    for x in range(N):
        e = np.zeros(N, dtype=np.complex128)
        e[x] = 1
        got = np.asarray(circ.apply_state(e))
        out.state()
        out.trans()
        if got.shape != (N,) or not np.all(np.isfinite(got)):
            err[x] = np.inf
            ident = False
            continue
        k = int(np.argmax(np.abs(got)))
        obs_tgt[x] = k
        obs_val[x] = got[k]
        got = got.astype(np.complex128)      # a copy
        if ident:
            got[x] -= 1
            ident = not got.any()
            got[x] += 1
        got[tgt[x]] -= ph[x]
        err[x] = np.abs(got).max()
    return dict(err=err, obs_tgt=obs_tgt, obs_val=obs_val, identity=bool(ident))


def basis_text(tgt, ph, x, n):
    return '(%s)|%s>' % (np.round(ph[x], 6), format(int(tgt[x]), '0%db' % n))


# ------------------------------------------------------------------ alphabets
def compact_alphabet(L, first):
    return [first + ''.join(t) for t in itertools.product('IXYZ', repeat=L - 1)]


def indexed_alphabet(index_tuples, first=None):
    """all sequences of terms <letter><index> over the given ordered index tuples (pairwise distinct indices), all letters"""
    ret = []
    for idx in index_tuples:
        for letters in itertools.product('IXYZ', repeat=len(idx)):
            if first is None or letters[0] == first:
                ret.append([(c, int(q)) for c, q in zip(letters, idx)])
    return ret


W_Z = {'quick': [0.5, 1, 1.5, 2, 3], 'thorough': [0.25, 0.5, 0.75, 1, 1.5, 2, 2.5, 3, 4]}
OP_ALPHABETS = ['XYZ', 'XZ', 'Y']
# non-dyadic weights, given as text: the reference decides n_x + n_y + w_z n_z < d in exact rationals of the decimal / fraction
# (the mathematically intended bound), numqi receives the nearest float. 3 / 0.3, 3 / 0.6, k / (1/3) are the quotients where
# a float ceil could admit one n_z too many.
W_Z_TEXT = ['0.1', '0.3', '1/3', '0.6']
# make_asymmetric_error_set by counting classes (no 4^n filter): n = 8 .. 12, d = 1 .. 4, every weight, as long as the
# expected set has at most this many elements
ASYM_COUNT_CAP = {'quick': 10000, 'thorough': 330000}
ASYM_COUNT_ALWAYS = [(10, 3, '0.3')]     # smallest n at which 3 / 0.3 = 10 limits n_z (27082 elements): in both tiers


def prepare(env):
    """self-test of the reference helpers against kron-built dense matrices (harness error if they disagree)"""
    rng = np.random.default_rng(0)
    for n in (1, 2, 3):
        pr = pauli_ref(n)
        psi = rng.normal(size=(2, 1 << n)) + 1j * rng.normal(size=(2, 1 << n))
        for s in all_strings(n):
            dense = ref.kron(*[ref.PAULI[c] for c in s])
            assert np.abs(pr.apply_string(psi, s) - psi @ dense.T).max() < 1e-12, s
            tgt, ph = pauli_on_basis([(c, q) for q, c in enumerate(s) if c != 'I'], n)
            col = np.zeros((1 << n, 1 << n), dtype=np.complex128)      # col[:, x] = P e_x
            col[tgt, np.arange(1 << n)] = ph
            assert np.abs(col - dense).max() == 0, s
    n = 3
    psi = rng.normal(size=(2, 8)) + 1j * rng.normal(size=(2, 8))
    U = ref.haar_unitary(rng, 2)
    for q in range(n):
        assert np.abs(ref_apply_1q(psi, U, q, n) - psi @ ref.embed(U, [q], n).T).max() < 1e-12
        for c in range(n):
            if c != q:
                assert np.abs(ref_apply_controlled(psi, U, [c], q, n) - psi @ ref.controlled(U, [c], [q], n).T).max() < 1e-12
    for n in (1, 2, 4):
        N = 1 << n
        v = rng.normal(size=(3, N))
        Hs = np.array([[(-1) ** bin(b & x).count('1') for x in range(N)] for b in range(N)])
        assert np.abs(wht(v) - v @ Hs.T).max() < 1e-12
    # class counting == the filter over all strings
    for n, d, wz in itertools.product((1, 2, 4), (1, 2, 3), ('0.3', '1/3', 0.5, 1, 2)):
        fr = fractions.Fraction(wz)
        cl = asym_classes(n, d, fr)
        flt = collections.Counter((s.count('X'), s.count('Y'), s.count('Z')) for s in all_strings(n)
                                  if weight(s) > 0 and s.count('X') + s.count('Y') + fr * s.count('Z') < d)
        assert cl == dict(flt), (n, d, wz)
    # enumerators of the trivial code |00>: P = |00><00|: A = B = [1, 2, 1] (Z-type strings only)
    cw = np.zeros((1, 4), dtype=np.complex128)
    cw[0, 0] = 1
    for route in ('words', 'projector'):
        A, B = ref_enumerators(cw, 2, route)
        assert np.abs(A - [1, 2, 1]).max() < 1e-12 and np.abs(B - [1, 2, 1]).max() < 1e-12
    # both routes agree on a generic 2-dimensional subspace of 3 qubits, and agree with the definition by dense matrices
    cw = np.linalg.qr((rng.normal(size=(8, 2)) + 1j * rng.normal(size=(8, 2))))[0].T
    A1, B1 = ref_enumerators(cw, 3, 'words')
    A2, B2 = ref_enumerators(cw, 3, 'projector')
    P = cw.T @ cw.conj()
    A3, B3 = np.zeros(4), np.zeros(4)
    for s in all_strings(3):
        E = ref.kron(*[ref.PAULI[c] for c in s])
        A3[weight(s)] += abs(np.trace(E @ P)) ** 2 / 4
        B3[weight(s)] += np.trace(E @ P @ E.conj().T @ P).real / 2
    assert max(np.abs(A1 - A3).max(), np.abs(A2 - A3).max(), np.abs(B1 - B3).max(), np.abs(B2 - B3).max()) < 1e-11


# ------------------------------------------------------------------ cases
ENUM_IMPL_THOROUGH = ('8_64_2', '883')
# sub-codes cw[:K'] whose enumerators are computed through numqi (K' = 3, 5 are not powers of two: the zero-padding branch of
# quantum_weight_enumerator; K' = 1, 2 are the un-padded neighbours). n = 8 costs about a minute: thorough tier only.
ENUM_SUB = {'quick': [('442', 1), ('442', 2), ('442', 3), ('422', 1), ('523', 1), ('642', 3)],
            'thorough': [('442', 1), ('442', 2), ('442', 3), ('422', 1), ('523', 1), ('642', 1), ('642', 2), ('642', 3), ('883', 5)]}


def codes_of(tier):
    return CODES if tier == 'thorough' else CODES[:-1]


def build_cases(tier, seed):
    quick = tier == 'quick'
    cases = []
    info = {}
    if not quick:
        # the two monolithic quantum_weight_enumerator calls that take minutes (112 s and 48 s on an idle core) are started
        # first so that they do not form the tail of the run (they cannot yield a "simpler" counterexample than the per-code
        # cases anyway). The same call for (10,4,4) needs about 16 min, for (11,2,5) more than an hour: reference only.
        for tag in ENUM_IMPL_THOROUGH:
            cases.append({'kind': 'enum', 'code': tag, 'impl': True})
        for tag, ks in ENUM_SUB[tier]:
            if CODE_BY_TAG[tag][1] > 6:
                cases.append({'kind': 'enum', 'code': tag, 'impl': True, 'Ksub': ks})
    cases.append({'kind': 'qecc_str'})
    # ---- parser
    Lmax = 4 if quick else 6
    for L in range(1, Lmax + 1):
        for first in 'IXYZ':
            cases.append({'kind': 'parse', 'notation': 'compact', 'len': L, 'first': first})
    idx_small = [0, 1, 2, 3] if quick else [0, 1, 2, 3, 4]
    Tmax = 3
    for T in range(1, Tmax + 1):
        for first in 'IXYZ':
            cases.append({'kind': 'parse', 'notation': 'indexed', 'index_tuples': [list(t) for t in itertools.permutations(idx_small, T)], 'first': first})
    # two-digit indices (11 qubits, 2048 basis states per string): one index tuple per case
    for tup in ([0], [10], [0, 10], [10, 0]):
        for first in 'IXYZ':
            cases.append({'kind': 'parse', 'notation': 'indexed', 'index_tuples': [tup], 'first': first})
    cases.append({'kind': 'parse', 'notation': 'empty', 'num_qubit': [1, 2, 3]})
    pad_small = [0, 1, 3]
    for T in (1, 2):
        cases.append({'kind': 'parse', 'notation': 'indexed_padded', 'index_tuples': [list(t) for t in itertools.permutations(pad_small, T)],
                      'pads': [1, 2, 3], 'first': None})
    cases.append({'kind': 'parse', 'notation': 'indexed_padded', 'index_tuples': [[10]], 'pads': [3], 'first': None})
    info['parser_edge'] = {'empty_string_on_qubits': [1, 2, 3], 'leading_zero_indices': pad_small, 'pad_widths': [1, 2, 3],
                           'max_terms': 2, 'padded_two_digit': ['X010', 'Y010', 'Z010', 'I010']}
    info['parser'] = {'compact_max_length': Lmax, 'compact_strings': sum(4 ** L for L in range(1, Lmax + 1)),
                      'indexed_indices': idx_small, 'indexed_max_terms': Tmax,
                      'indexed_strings': sum(len(indexed_alphabet(list(itertools.permutations(idx_small, T)))) for T in range(1, Tmax + 1)) + 8 + 32,
                      'two_digit_indices': [0, 10]}
    # ---- error-set generators
    Nmax, Dmax = (6, 4) if quick else (7, 5)
    nd = [(n, d) for n in range(1, Nmax + 1) for d in range(2, Dmax + 1)]
    nd.sort(key=lambda t: (sum(n_errors(t[0], w) for w in range(1, t[1])), t))
    for n, d in nd:
        cases.append({'kind': 'errlist', 'n': n, 'd': d, 'full': bool(n <= 6 and d <= 4)})
    nd1 = sorted(nd + [(n, 1) for n in range(1, Nmax + 1)], key=lambda t: (sum(n_errors(t[0], w) for w in range(1, t[1])), t))
    for n, d in nd1:       # distance 1 is accepted by this generator (only Z-type errors with w_z n_z < 1 remain)
        cases.append({'kind': 'asym', 'n': n, 'd': d, 'wz': W_Z[tier] + W_Z_TEXT})
    big = []
    for n in range(8, 13):
        for d in (1, 2, 3, 4):
            for wz in W_Z_TEXT + [0.5, 1]:
                size = sum(asym_classes(n, d, fractions.Fraction(wz)).values())
                if 0 < size <= ASYM_COUNT_CAP[tier] or (n, d, wz) in ASYM_COUNT_ALWAYS:
                    big.append((size, n, d, wz))
    big.sort(key=lambda t: (t[0], t[1], t[2], str(t[3])))
    for size, n, d, wz in big:
        cases.append({'kind': 'asym_count', 'n': n, 'd': d, 'wz': wz})
    info['error_sets'] = {'n_max': Nmax, 'd_max': Dmax, 'op_alphabets': OP_ALPHABETS, 'w_z': W_Z[tier], 'w_z_non_dyadic': W_Z_TEXT,
                          'asym_distance_min': 1, 'asym_default_weight_z': 'every (n, d)',
                          'asym_by_counting': {'n': [8, 12], 'd': [1, 4], 'w_z': W_Z_TEXT + [0.5, 1], 'max_elements': ASYM_COUNT_CAP[tier],
                                               'configurations': len(big), 'elements': sum(t[0] for t in big)},
                          'tag_full_for': 'n<=6 and d<=4'}
    # ---- generic atoms for the inner product
    G = 2 if quick else 6
    for n in (2, 3, 4):
        for K in (1, 2, 4):
            cases.append({'kind': 'ipgen', 'n': n, 'K': K, 'atoms': G})
    for n in (2, 3, 4):
        for K in (1, 2, 4):
            cases.append({'kind': 'ipvar', 'n': n, 'K': K, 'atoms': 1 if quick else 3})
    info['input_forms'] = ['fortran', 'strided', 'complex64', 'float64', 'float32', 'torch_transposed', 'torch_conj_view', 'torch_complex64',
                           'torch_float64', 'check_stabilizer: list_of_vectors / fortran / strided / complex64 / float64 (real code words)']
    info['generic_atoms'] = {'per_configuration': G, 'configurations': '(n,K) in {2,3,4} x {1,2,4}'}
    # ---- codes
    info['codes'] = []
    for tag, n, K, d in codes_of(tier):
        cases.append({'kind': 'code', 'code': tag})
        for k in range(N_STAB[tag]):
            cases.append({'kind': 'stab', 'code': tag, 'k': k})
        # weight d is explored as a differential-only level (quick: n <= 8; thorough: every code)
        wdiff = d if (n <= 8 or not quick) else d - 1
        for q in range(n):
            for c in 'XYZ':
                cases.append({'kind': 'kl', 'code': tag, 'root': [q, c], 'wmax': wdiff})
        if quick or tag not in ENUM_IMPL_THOROUGH:   # those were queued first in the thorough tier
            cases.append({'kind': 'enum', 'code': tag, 'impl': bool(n <= 6)})
        for t2, ks in ENUM_SUB[tier]:
            if t2 == tag and n <= 6:
                cases.append({'kind': 'enum', 'code': tag, 'impl': True, 'Ksub': ks})
        info['codes'].append({'code': NAME[tag], 'errors_below_distance': sum(n_errors(n, w) for w in range(1, d)),
                              'errors_differential_level': (n_errors(n, d) if wdiff == d else 0),
                              'basis_states_per_stabilizer': 2 ** n, 'stabilizers': N_STAB[tag]})
    info['enumerator_subcodes'] = ['%s[:%d]' % (NAME[t], k) for t, k in ENUM_SUB[tier]]
    info['exhaustive'] = True
    info['note'] = ('exhaustive within the stated bounds: every Pauli error of weight < d of every shipped code of the tier; every basis state '
                    'for every shipped stabilizer circuit; every string of the parser alphabets; every (n, d, alphabet / w_z) of the generators')
    return cases, info


# ------------------------------------------------------------------ run
def run_case(case, out, env):
    import numqi
    kind = case['kind']
    if kind == 'qecc_str':
        run_qecc_str(numqi, case, out, env)
    elif kind == 'parse':
        run_parse(numqi, case, out, env)
    elif kind == 'errlist':
        run_errlist(numqi, case, out, env)
    elif kind == 'asym':
        run_asym(numqi, case, out, env)
    elif kind == 'asym_count':
        run_asym_count(numqi, case, out, env)
    elif kind == 'ipgen':
        run_ipgen(numqi, case, out, env)
    elif kind == 'ipvar':
        run_ipvar(numqi, case, out, env)
    elif kind == 'code':
        run_code(numqi, case, out, env)
    elif kind == 'stab':
        run_stab(numqi, case, out, env)
    elif kind == 'kl':
        run_kl(numqi, case, out, env)
    elif kind == 'enum':
        run_enum(numqi, case, out, env)
    else:
        raise ValueError(kind)


def run_qecc_str(numqi, case, out, env):
    f = numqi.qec.parse_str_qecc
    key = SITE_Q + ':parse_str_qecc/wrong_field'
    for tag, n, K, d in CODES:
        out.state()
        out.trans()
        r = f(NAME[tag])
        exp = dict(num_qubit=n, num_logical_dim=K, weight_z=None, distance=d)
        out.check(r == exp, key, 'parse_str_qecc(%r) = %r, expected %r' % (NAME[tag], r, exp), string=NAME[tag])
        out.outcome(sorted(r.items(), key=str), nontrivial=True)
    for n, K, d, wz in itertools.product([4, 5, 11], [2, 64], [2, 5], [None, '2', '0.5', '1.5']):
        s = '((%d,%d,%d))' % (n, K, d) if wz is None else '((%d,%d,de(%s)=%d))' % (n, K, wz, d)
        out.state()
        out.trans()
        r = f(s)
        exp = dict(num_qubit=n, num_logical_dim=K, weight_z=(None if wz is None else float(wz)), distance=d)
        out.check(r == exp, key, 'parse_str_qecc(%r) = %r, expected %r' % (s, r, exp), string=s)
        out.outcome(sorted(r.items(), key=str), nontrivial=True)
        out.trace()
    out.sample = {'kind': 'qecc_str', 'string': '((6,2,de(2)=4))'}


def check_circuit_is_pauli(out, circ, terms, n, key, text, **detail):
    """circuit applied to every basis state of n qubits == product of the (letter, qubit) terms. Returns the observation"""
    tgt, ph = pauli_on_basis([t for t in terms if t[0] != 'I'], n)
    obs = circuit_on_basis(circ, n, out, tgt, ph)
    ng = max(1, len(circ.gate_index_list))
    # exact products of 0, +-1, +-i; tolerance 1e3 eps G only so that other exact gate sets are not over-constrained
    bad = obs['err'] > C_SAFE * EPS * ng
    if bad.any():
        x = int(np.flatnonzero(bad)[0])
        out.violation(key, '%s: circuit |%s> has its largest amplitude %s, the Pauli string gives %s (circuit gates: %s; circuit is the identity: %s)' % (
            text, format(x, '0%db' % n), basis_text(obs['obs_tgt'], obs['obs_val'], x, n), basis_text(tgt, ph, x, n),
            [(g.name, repr(i)) for g, i in circ.gate_index_list][:12], obs['identity']),
            basis_state=x, n_bad_basis_states=int(bad.sum()), is_identity=obs['identity'], **detail)
    return obs


def run_parse(numqi, case, out, env):
    f = numqi.qec.parse_simple_pauli
    if case['notation'] == 'compact':
        items = [(s, [(c, q) for q, c in enumerate(s)], len(s)) for s in compact_alphabet(case['len'], case['first'])]
    elif case['notation'] == 'empty':
        # the empty string has no digit: compact notation of zero letters = the empty product, on any number of qubits
        items = [('', [], n) for n in case['num_qubit']]
    elif case['notation'] == 'indexed_padded':
        # indices written with leading zeros ('X01', 'Z003'): [0-9]+ is read by int(), so they denote the same qubit
        items = []
        for terms in indexed_alphabet(case['index_tuples'], case['first']):
            for pads in itertools.product(case['pads'], repeat=len(terms)):
                text = ''.join('%s%0*d' % (c, w, q) for (c, q), w in zip(terms, pads))
                if text != ''.join('%s%d' % (c, q) for c, q in terms):
                    items.append((text, terms, max(q for _, q in terms) + 1))
    else:
        items = []
        for terms in indexed_alphabet(case['index_tuples'], case['first']):
            items.append((''.join('%s%d' % (c, q) for c, q in terms), terms, max(q for _, q in terms) + 1))
    for s, terms, n in items:
        has_I = any(c == 'I' for c, _ in terms)
        nonI = [(c, q) for c, q in terms if c != 'I']
        cfg = 'notation=%s,mode=%%s,I_term=%s' % (case['notation'], has_I)
        # ---- circuit mode
        try:
            circ = f(s, tag_circuit=True)
        except Exception as e:
            out.trans()
            out.violation('%s:parse_simple_pauli/%s/%s' % (SITE_Q, type(e).__name__, cfg % 'circuit'),
                          'parse_simple_pauli(%r, tag_circuit=True) raised %r' % (s, e), string=s)
            circ = None
        if circ is not None:
            obs = check_circuit_is_pauli(out, circ, terms, n, K_PARSE_CIRC, 'parse_simple_pauli(%r, tag_circuit=True)' % s, string=s)
            out.outcome(('circ', n, obs['obs_tgt'], obs['obs_val']), nontrivial=not obs['identity'])
        # ---- list mode
        out.state()
        out.trans()
        try:
            lst = f(s, tag_circuit=False)
        except Exception as e:
            out.violation('%s:parse_simple_pauli/%s/%s' % (SITE_Q, type(e).__name__, cfg % 'list'),
                          'parse_simple_pauli(%r, tag_circuit=False) raised %r' % (s, e), string=s)
            continue
        got = []
        try:
            for op, q in lst:
                got.append((op_letter(op), int(q)))
        except Exception:
            got = None
        out.check(got == nonI, SITE_Q + ':parse_simple_pauli/list_mode_wrong_terms',
                  'parse_simple_pauli(%r, tag_circuit=False) lists %r, expected the non-identity factors %r' % (s, got, nonI), string=s)
        out.outcome(('list', got), nontrivial=bool(got))
        out.trace()
    out.sample = {'kind': 'parse', 'string': items[-1][0]}


def run_errlist(numqi, case, out, env):
    n, d = case['n'], case['d']
    site = SITE_I + ':make_error_list'
    gate = {'X': numqi.gate.X, 'Y': numqi.gate.Y, 'Z': numqi.gate.Z}
    for c in 'XYZ':
        out.check(np.array_equal(np.asarray(gate[c]).astype(np.complex128), ref.PAULI[c]), 'gate/pauli/wrong_matrix',
                  'numqi.gate.%s is not the Pauli matrix' % c, letter=c)
    for alph in OP_ALPHABETS:
        expected = {string_to_label(s) for s in all_strings(n, 'I' + alph) if 1 <= weight(s) <= d - 1}
        op_list = None if alph == 'XYZ' else [gate[c] for c in alph]
        detail = dict(num_qubit=n, distance=d, op_list=alph)
        out.state()
        out.trans()
        lst = numqi.qec.make_error_list(n, d) if op_list is None else numqi.qec.make_error_list(n, d, op_list=op_list)
        labels = [error_label(e, n) for e in lst]
        compare_error_set(out, site, labels, expected, detail)
        out.outcome((n, d, alph, sorted(l for l in labels if l is not None)), nontrivial=len(lst) > 0)
        if case['full']:
            out.trans()
            full = numqi.qec.make_error_list(n, d, op_list=op_list, tag_full=True)
            okf = len(full) == len(lst)
            if okf:
                for i, (m, l) in enumerate(zip(full, labels)):
                    if l is None:
                        continue
                    exp = ref.kron(*[ref.PAULI[c] for c in label_to_string(l, n)])
                    if np.shape(m) != exp.shape or not np.array_equal(np.asarray(m).astype(np.complex128), exp):
                        okf = False
                        out.violation(site + '/tag_full_matrix_mismatch', 'tag_full element %d is not the embedded operator %s' % (i, label_text(l)),
                                      index=i, error=label_text(l), **detail)
                        break
            else:
                out.violation(site + '/tag_full_matrix_mismatch', 'tag_full=True returns %d matrices, tag_full=False %d errors' % (len(full), len(lst)), **detail)
        out.trace()
    out.sample = {'kind': 'errlist', 'n': n, 'd': d}


def wz_values(wz):
    """(exact rational, float passed to numqi) of one entry of the w_z alphabets: a dyadic number, or the text of a decimal /
    fraction ('0.3', '1/3') whose mathematically intended value is the exact rational and whose argument is the nearest float"""
    fr = fractions.Fraction(wz)
    return fr, (float(fr) if isinstance(wz, str) else wz)


def asym_classes(n, d, fr):
    """the admissible (n_x, n_y, n_z) with 0 < n_x + n_y + n_z <= n and n_x + n_y + w_z n_z < d, decided in exact rationals,
    with the number n! / (n_x! n_y! n_z! (n - n_x - n_y - n_z)!) of Pauli strings of each class"""
    ret = {}
    for nx in range(n + 1):
        for ny in range(n + 1 - nx):
            for nz in range(n + 1 - nx - ny):
                if nx + ny + nz > 0 and nx + ny + fr * nz < d:
                    f = math.factorial
                    ret[(nx, ny, nz)] = f(n) // (f(nx) * f(ny) * f(nz) * f(n - nx - ny - nz))
    return ret


def fast_labels(lst, n):
    """error_label for long lists: the letter of an operator object is looked up once per object (entry by entry, op_letter)"""
    memo = {}
    keep = []
    ret = []
    for err in lst:
        try:
            items = []
            for ind, op in err:
                c = memo.get(id(op))
                if c is None:
                    c = memo[id(op)] = op_letter(op) or '?'
                    keep.append(op)           # keeps the object alive, so that the id stays unique
                q = ind[0]
                if c == '?' or len(ind) != 1 or not (0 <= q < n) or q != int(q):
                    items = None
                    break
                items.append((int(q), c))
            if items is not None and len({q for q, _ in items}) != len(items):
                items = None
        except Exception:
            items = None
        ret.append(None if items is None else tuple(sorted(items)))
    return ret


def compare_error_counts(out, site, labels, classes, detail):
    """compare_error_set without the filter over 4^n strings: every label is well-formed, distinct, of an admissible class
    (n_x, n_y, n_z), and every admissible class has its full number of strings (distinct strings of a class that number its
    multinomial coefficient ARE the class). Same finding keys as compare_error_set."""
    bad = [i for i, l in enumerate(labels) if l is None]
    if bad:
        out.violation(site + '/malformed_element', 'element %d of the error set is not a list of ([qubit], Pauli matrix) on distinct qubits' % bad[0],
                      n_malformed=len(bad), **detail)
    good = [l for l in labels if l is not None]
    qual = 'num_qubit<distance' if detail['num_qubit'] < detail['distance'] else 'num_qubit>=distance'
    distinct = set(good)
    if len(distinct) != len(good):
        cnt = collections.Counter(good)
        l0 = min(l for l, c in cnt.items() if c > 1)
        out.violation('%s/duplicate_error/%s' % (site, qual), 'error %s is generated %d times' % (label_text(l0), cnt[l0]),
                      n_duplicates=len(good) - len(distinct), first=label_text(l0), **detail)
    got = collections.Counter()
    first = {}
    for l in distinct:
        k = (sum(c == 'X' for _, c in l), sum(c == 'Y' for _, c in l), sum(c == 'Z' for _, c in l))
        got[k] += 1
        if k not in first or l < first[k]:
            first[k] = l
    extra = sorted(k for k in got if k not in classes)
    if extra:
        out.violation('%s/inadmissible_error/%s' % (site, qual), '%d generated errors are outside the admissible set, e.g. %s with (n_x, n_y, n_z) = %r'
                      % (sum(got[k] for k in extra), label_text(first[extra[0]]), extra[0]),
                      n_extra=sum(got[k] for k in extra), first_extra=[label_text(first[k]) for k in extra[:8]], **detail)
    short = sorted(k for k in classes if got[k] != classes[k])
    if short:
        out.violation('%s/missing_admissible_error/%s' % (site, qual),
                      '%d admissible Pauli errors are not generated, e.g. only %d of the %d with (n_x, n_y, n_z) = %r (returned %d elements, expected %d)'
                      % (sum(classes[k] - got[k] for k in short), got[short[0]], classes[short[0]], short[0], len(labels), sum(classes.values())),
                      n_missing=sum(classes[k] - got[k] for k in short), first_missing_classes=[list(k) for k in short[:8]], **detail)
    return not (bad or extra or short or len(distinct) != len(good))


def run_asym(numqi, case, out, env):
    n, d = case['n'], case['d']
    site = SITE_I + ':make_asymmetric_error_set'
    strings = all_strings(n)
    cnt = [(s, sum(c in 'XY' for c in s), sum(c == 'Z' for c in s)) for s in strings]
    by_wz = {}
    for wz in case['wz']:
        fr, arg = wz_values(wz)            # dyadic: fr == arg exactly
        expected = {string_to_label(s) for s, nxy, nz in cnt if (nxy + nz > 0) and (nxy + fr * nz < d)}
        out.state()
        out.trans()
        lst = numqi.qec.make_asymmetric_error_set(n, d, arg)
        labels = [error_label(e, n) for e in lst]
        compare_error_set(out, site, labels, expected, dict(num_qubit=n, distance=d, weight_z=wz))
        out.outcome((n, d, wz, sorted(l for l in labels if l is not None)), nontrivial=len(lst) > 0)
        out.trace()
        by_wz[wz] = labels
        if isinstance(wz, str):
            out.count('asym_non_dyadic_weight')
    # ---- the default weight_z (documented default 1): the call without it, the call with 1, and make_error_list agree
    out.state()
    out.trans()
    lst = numqi.qec.make_asymmetric_error_set(n, d)
    labels = [error_label(e, n) for e in lst]
    if 1 not in by_wz:
        out.trans()
        by_wz[1] = [error_label(e, n) for e in numqi.qec.make_asymmetric_error_set(n, d, 1)]
    out.check(labels == by_wz[1], site + '/default_weight_z_differs_from_1',
              'make_asymmetric_error_set(%d, %d) returns %d errors, make_asymmetric_error_set(%d, %d, 1) %d (or another order)' % (n, d, len(labels), n, d, len(by_wz[1])),
              num_qubit=n, distance=d)
    expected = {string_to_label(s) for s, nxy, nz in cnt if 1 <= nxy + nz <= d - 1}
    compare_error_set(out, site, labels, expected, dict(num_qubit=n, distance=d, weight_z='default'))
    if d > 1:           # make_error_list asserts distance > 1
        out.trans()
        sym = [error_label(e, n) for e in numqi.qec.make_error_list(n, d)]
        out.check(None not in labels and None not in sym and len(labels) == len(sym) and set(labels) == set(sym),
                  site + '/default_weight_z_differs_from_make_error_list',
                  'make_asymmetric_error_set(%d, %d) (%d errors) is not the set make_error_list(%d, %d) (%d errors)' % (n, d, len(labels), n, d, len(sym)),
                  num_qubit=n, distance=d)
    out.outcome((n, d, 'default', sorted(l for l in labels if l is not None)), nontrivial=len(lst) > 0)
    out.trace()
    out.sample = {'kind': 'asym', 'n': n, 'd': d, 'weight_z': case['wz']}


def run_asym_count(numqi, case, out, env):
    """one (n, d, w_z) with n beyond the reach of the 4^n filter: complete / unique / nothing else by counting classes"""
    n, d, wz = case['n'], case['d'], case['wz']
    site = SITE_I + ':make_asymmetric_error_set'
    fr, arg = wz_values(wz)
    classes = asym_classes(n, d, fr)
    # is the weighted bound what limits n_z somewhere (and not just the number of qubits)?
    binding = any(nx + ny + nz < n and (nx, ny, nz + 1) not in classes for nx, ny, nz in classes)
    out.count('asym_count_weighted_bound_binding' if binding else 'asym_count_only_qubit_number_binding')
    out.state()
    out.trans()
    lst = numqi.qec.make_asymmetric_error_set(n, d, arg)
    labels = fast_labels(lst, n)
    compare_error_counts(out, site, labels, classes, dict(num_qubit=n, distance=d, weight_z=wz))
    out.outcome((n, d, wz, len(lst), sorted(classes.items())), nontrivial=len(lst) > 0)
    out.trace()
    out.sample = {'kind': 'asym_count', 'n': n, 'd': d, 'weight_z': wz, 'errors': len(lst)}


def ip_backends(numqi, q0, errs):
    """knill_laflamme_inner_product through the numpy and the torch path"""
    import torch
    ret = {}
    ret['numpy'] = np.asarray(numqi.qec.knill_laflamme_inner_product(q0, errs))
    t = numqi.qec.knill_laflamme_inner_product(torch.tensor(q0, dtype=torch.complex128), errs)
    ret['torch'] = t.detach().numpy()
    return ret


def ref_loss(M, kind):
    """sum over errors of sum_{i<j} |M_ij|^p + sum_i |M_ii - mean_i M_ii|^p (the documented loss), written out with loops"""
    p = 1 if kind == 'L1' else 2
    K = M.shape[1]
    tot = 0.0
    for m in M:
        for i in range(K):
            for j in range(i + 1, K):
                tot += abs(m[i, j]) ** p
        mean = sum(m[i, i] for i in range(K)) / K
        for i in range(K):
            tot += abs(m[i, i] - mean) ** p
    return float(tot)


def ref_loss_fast(M, kind):
    p = 1 if kind == 'L1' else 2
    K = M.shape[1]
    iu = np.triu_indices(K, 1)
    dg = M[:, np.arange(K), np.arange(K)]
    return float((np.abs(M[:, iu[0], iu[1]]) ** p).sum() + (np.abs(dg - dg.mean(axis=1, keepdims=True)) ** p).sum())


def compare_loss(numqi, out, ip_by_backend, Mref, tol, detail):
    """knill_laflamme_loss (numpy + torch, L1 + L2) on the implementation's inner products against the reference loss"""
    import torch
    if len(Mref) == 0:
        return {}
    K = Mref.shape[1]
    n_t = len(Mref) * (K * (K - 1) // 2 + K)
    ret = {}
    for kind in ('L1', 'L2'):
        exp = ref_loss_fast(Mref, kind) if (K > 4 or len(Mref) > 50) else ref_loss(Mref, kind)
        bound = 2 * n_t * tol if kind == 'L1' else n_t * (4 * tol + 4 * tol * tol)
        for be, ip in ip_by_backend.items():
            out.trans()
            arg = ip if be == 'numpy' else torch.tensor(ip, dtype=torch.complex128)
            got = float(numqi.qec.knill_laflamme_loss(arg, kind))
            if not (np.isfinite(got) and abs(got - exp) <= bound):
                out.violation('%s:knill_laflamme_loss/differs_from_reference/kind=%s,backend=%s' % (SITE_V, kind, be),
                              'knill_laflamme_loss = %r, reference %r (|diff| bound %.3g)' % (got, exp, bound), **detail)
            ret[(kind, be)] = got
        ret[(kind, 'ref')] = exp
    return ret


def run_ipgen(numqi, case, out, env):
    n, K = case['n'], case['K']
    pr = pauli_ref(n)
    errs = numqi.qec.make_error_list(n, min(n, 3) + 1)
    labels = [error_label(e, n) for e in errs]
    tol = tol_ip(n, 0)
    for g in range(case['atoms']):
        rng = env.rng('C19', 'ipgen', n, K, g)
        q0 = rng.normal(size=(K, 1 << n)) + 1j * rng.normal(size=(K, 1 << n))
        q0 = q0 / np.linalg.norm(q0, axis=1, keepdims=True)
        ips = ip_backends(numqi, q0, errs)
        Mref = np.zeros((len(errs), K, K), dtype=np.complex128)
        for i, l in enumerate(labels):
            if l is None:
                continue
            Mref[i] = q0.conj() @ pr.apply_terms(q0, [(c, q) for q, c in l]).T
        for be, ip in ips.items():
            for i, l in enumerate(labels):
                if l is None:
                    continue
                out.state()
                out.trans()
                if ip.shape != Mref.shape or not np.all(np.isfinite(ip[i])) or np.abs(ip[i] - Mref[i]).max() > tol:
                    out.violation('%s:knill_laflamme_inner_product/differs_from_reference/backend=%s' % (SITE_I, be),
                                  '<i|E|j> for E=%s on a generic %dx%d atom differs from the reference by %.3g' % (
                                      label_text(l), K, 1 << n, float(np.abs(ip[i] - Mref[i]).max()) if ip.shape == Mref.shape else np.nan),
                                  error=label_text(l), q0=q0, got=(ip[i] if ip.shape == Mref.shape else list(ip.shape)), expected=Mref[i])
                    break
        for i in range(len(errs)):
            out.outcome((n, K, Mref[i]), nontrivial=True)
        compare_loss(numqi, out, ips, Mref, tol, dict(num_qubit=n, K=K, atom=g, q0=q0))
        out.trace()
    out.sample = {'kind': 'ipgen', 'n': n, 'K': K, 'errors': len(errs)}


EPS32 = 1.1920928955078125e-07     # 2^-23: inputs given in single precision may be processed in single precision


def input_forms(q0, rng_real):
    """argument forms of one (K, 2^n) array of unit rows for knill_laflamme_inner_product / check_stabilizer:
    name -> (argument builder (numpy), the values the argument holds as complex128 C-order, unit round-off of the form).
    Layout forms hold q0 itself; dtype forms hold the rounded / real values (reference recomputed on exactly those)."""
    K, N = q0.shape
    big = np.zeros((2 * K, 2 * N), dtype=q0.dtype)
    big[::2, ::2] = q0
    qr = rng_real / np.linalg.norm(rng_real, axis=1, keepdims=True)
    forms = {
        'fortran': (np.asfortranarray(q0), q0, EPS),
        'strided': (big[::2, ::2], q0, EPS),
        'complex64': (q0.astype(np.complex64), q0.astype(np.complex64).astype(np.complex128), EPS32),
        'float64': (qr, qr.astype(np.complex128), EPS),
        'float32': (qr.astype(np.float32), qr.astype(np.float32).astype(np.complex128), EPS32),
    }
    return forms


def run_ipvar(numqi, case, out, env):
    """knill_laflamme_inner_product: the result does not depend on the memory layout of q0, and real / single-precision q0
    give the inner products of exactly those amplitudes (Y errors on real amplitudes: the result is complex)"""
    import torch
    n, K = case['n'], case['K']
    pr = pauli_ref(n)
    errs = numqi.qec.make_error_list(n, min(n, 3) + 1)
    labels = [error_label(e, n) for e in errs]
    f = numqi.qec.knill_laflamme_inner_product
    keybase = '%s:knill_laflamme_inner_product/input_form_changes_result' % SITE_I

    def reference(v):
        M = np.zeros((len(errs), K, K), dtype=np.complex128)
        for i, l in enumerate(labels):
            if l is not None:
                M[i] = v.conj() @ pr.apply_terms(v, [(c, q) for q, c in l]).T
        return M
    for g in range(case['atoms']):
        rng = env.rng('C19', 'ipvar', n, K, g)
        q0 = rng.normal(size=(K, 1 << n)) + 1j * rng.normal(size=(K, 1 << n))
        q0 = q0 / np.linalg.norm(q0, axis=1, keepdims=True)
        forms = input_forms(q0, rng.normal(size=(K, 1 << n)))
        calls = []
        for name, (arg, val, eps) in forms.items():
            calls.append((name, arg, val, eps))
        calls.append(('torch_transposed', torch.tensor(q0.T.copy()).T, q0, EPS))
        calls.append(('torch_conj_view', torch.tensor(q0.conj()).conj(), q0, EPS))
        calls.append(('torch_complex64', torch.tensor(forms['complex64'][0]), forms['complex64'][1], EPS32))
        calls.append(('torch_float64', torch.tensor(forms['float64'][0]), forms['float64'][1], EPS))
        refs = {}
        for name, arg, val, eps in calls:
            out.state()
            out.trans()
            if isinstance(arg, torch.Tensor):
                if name == 'torch_transposed':
                    assert K == 1 or not arg.is_contiguous()
                if name == 'torch_conj_view':
                    assert arg.is_conj()
            try:
                got = f(arg, errs)
            except Exception as e:
                out.violation('%s/%s/%s' % (keybase, name, type(e).__name__), 'knill_laflamme_inner_product(q0 as %s) raised %r' % (name, e), form=name, q0=val)
                continue
            got = got.detach().numpy() if isinstance(got, torch.Tensor) else np.asarray(got)
            if id(val) not in refs:
                refs[id(val)] = reference(val)
            Mref = refs[id(val)]
            tol = C_SAFE * eps * (2 ** n)          # tol_ip with the round-off of the form (no encoding gates)
            ok = got.shape == Mref.shape and bool(np.all(np.isfinite(got))) and float(np.abs(got - Mref).max()) <= tol
            if not ok:
                i = int(np.argmax(np.abs(got - Mref).reshape(len(errs), -1).max(axis=1))) if got.shape == Mref.shape else 0
                out.violation('%s/%s' % (keybase, name), '<i|E|j> for q0 given as %s: E=%s differs from the reference on the same amplitudes by %.3g (tol %.3g); result dtype %s'
                              % (name, label_text(labels[i] or ()), float(np.abs(got[i] - Mref[i]).max()) if got.shape == Mref.shape else np.nan, tol, got.dtype),
                              form=name, error=label_text(labels[i] or ()), q0=val, got=(got[i] if got.shape == Mref.shape else list(got.shape)), expected=Mref[i])
            out.outcome((n, K, name, np.round(Mref, 6)), nontrivial=bool(np.abs(Mref.imag).max() > 1e-6))
        out.trace()
    out.sample = {'kind': 'ipvar', 'n': n, 'K': K, 'forms': [c[0] for c in calls]}


def check_stabilizer_forms(numqi, out, stab, strings_n, cw, n, n_gate, name):
    """check_stabilizer(stab, code) for the other documented / natural forms of `code` (a list of vectors, other layouts and
    dtypes): the expectation values of the listed strings on exactly those amplitudes"""
    K = cw.shape[0]
    pr = pauli_ref(n)
    forms = {k: v for k, v in input_forms(cw, np.ones_like(cw.real)).items() if k in ('fortran', 'strided', 'complex64')}
    forms['list_of_vectors'] = ([cw[i].copy() for i in range(K)], cw, EPS)
    if not np.any(cw.imag):
        forms['float64'] = (cw.real.copy(), cw, EPS)
        out.count('check_stabilizer_real_code_words')
    for form, (arg, val, eps) in forms.items():
        out.state()
        out.trans()
        key = '%s:check_stabilizer/input_form_changes_result/%s' % (SITE_I, form)
        try:
            got = np.asarray(numqi.qec.check_stabilizer(stab, arg))
        except Exception as e:
            out.violation(key + '/' + type(e).__name__, 'check_stabilizer(code as %s) raised %r' % (form, e), code=name, form=form)
            continue
        exp = np.stack([np.einsum('ix,ix->i', val.conj(), pr.apply_string(val, s)) for s in strings_n], axis=1)
        tol = C_SAFE * eps * (2 ** n + 2 * n_gate)
        ok = got.shape == exp.shape and bool(np.all(np.isfinite(got))) and float(np.abs(got - exp).max()) <= tol
        out.check(ok, key, 'check_stabilizer(code as %s) = %s, <c|S|c> of the listed strings = %s' % (form, np.round(got, 6).tolist(), np.round(exp, 6).tolist()),
                  code=name, form=form)


def build_code(numqi, tag, out):
    """generate the code and its code words. Returns dict or None (violation recorded)"""
    _, n, K, d = CODE_BY_TAG[tag]
    site = '%s:generate_code%s' % (SITE_Q, tag)
    code = get_code(numqi, tag)
    circ = code['encode']
    cw = np.asarray(numqi.qec.generate_code_np(circ, K))
    return dict(code=code, circ=circ, cw=cw, n=n, K=K, d=d, site=site, n_gate=len(circ.gate_index_list))


def run_code(numqi, case, out, env):
    tag = case['code']
    _, n, K, d = CODE_BY_TAG[tag]
    out.state()
    out.trans()
    c = build_code(numqi, tag, out)
    site, code, circ, cw = c['site'], c['code'], c['circ'], c['cw']
    hdr = {k: code.get(k) for k in ('name', 'num_qubit', 'num_logical_dim', 'distance', 'weight_z')}
    exp = dict(name=NAME[tag], num_qubit=n, num_logical_dim=K, distance=d, weight_z=None)
    out.check(hdr == exp, site + '/wrong_header_fields', 'header %r, expected %r' % (hdr, exp))
    out.check(circ.num_qubit == n, site + '/encode_wrong_num_qubit', 'encoding circuit acts on %d qubits, expected %d' % (circ.num_qubit, n))
    out.trans()
    if not out.check(cw.shape == (K, 1 << n) and np.all(np.isfinite(cw)), SITE_I + ':generate_code_np/wrong_shape_or_nonfinite',
                     'generate_code_np returns shape %r for (K, 2^n) = %r' % (cw.shape, (K, 1 << n)), code=NAME[tag]):
        return
    ta = tol_amp(c['n_gate'])
    ti = tol_ip(n, c['n_gate'])
    cw_ref = ref_encode(circ, n, K, out)
    err = float(np.abs(cw - cw_ref).max())
    out.check(err <= ta, site + '/codewords_differ_from_reference_simulation',
              'code words of generate_code_np differ from the gate-by-gate reference simulation of the encoding circuit by %.3g (tol %.3g)' % (err, ta),
              code=NAME[tag], gates=[(g.name, repr(i)) for g, i in circ.gate_index_list])
    gram = cw.conj() @ cw.T
    gerr = float(np.abs(gram - np.eye(K)).max())
    out.check(gerr <= ti, site + '/codewords_not_orthonormal', 'Gram matrix of the code words deviates from 1 by %.3g (tol %.3g)' % (gerr, ti), code=NAME[tag])
    out.outcome(('cw', tag, cw), nontrivial=bool(np.count_nonzero(np.abs(cw[0]) > 1e-9) > 1))
    # ---- the constructor hands out objects the caller owns (VarQEC shifts the encoder it is given in place): after the circuits of a
    #      first result were edited in place, a second call must still return the shipped code
    if n <= 8:
        out.trans()
        first = get_code(numqi, tag)
        first['encode'].shift_qubit_index_(1)
        first['encode'].X(0)
        for v in first.values():
            if isinstance(v, list):
                v.clear()
        second = get_code(numqi, tag)
        try:
            cw2 = np.asarray(numqi.qec.generate_code_np(second['encode'], K))
            same = cw2.shape == cw.shape and float(np.abs(cw2 - cw).max()) <= ta
        except Exception as e:  # noqa
            cw2, same = repr(e), False
        out.check(same and set(second.keys()) == set(code.keys()) and all(len(second[k_]) == len(code[k_]) for k_ in code if isinstance(code[k_], list)),
                  site + '/result_shared_between_calls',
                  'after the encoder / lists of a first generate_code%s() result were edited in place, a second call no longer returns the shipped code (code words %s)'
                  % (tag, 'differ' if isinstance(cw2, np.ndarray) else cw2), code=NAME[tag])
    # ---- the code's own error list is complete
    out.trans()
    lst = numqi.qec.make_error_list(n, d)
    labels = [error_label(e, n) for e in lst]
    n_exp = sum(n_errors(n, w) for w in range(1, d))
    good = [l for l in labels if l is not None]
    okl = (len(lst) == n_exp) and (len(good) == n_exp) and (len(set(good)) == n_exp) and all(1 <= len(l) <= d - 1 for l in good)
    out.check(okl, SITE_I + ':make_error_list/wrong_set_for_shipped_code',
              'make_error_list(%d, %d): %d elements, %d well-formed, %d distinct; expected all %d Paulis of weight 1..%d exactly once'
              % (n, d, len(lst), len(good), len(set(good)), n_exp, d - 1), num_qubit=n, distance=d)
    # ---- listed stabilizer strings
    strings, origin = listed_strings(numqi, tag, n, out)
    stab = code['stabilizer']
    out.check(len(stab) == len(strings), site + '/stabilizer_count', '%d stabilizer circuits for %d listed strings' % (len(stab), len(strings)),
              listed=strings)
    out.check(all(len(s) == n for s in strings), site + '/listed_string_wrong_length', 'a listed stabilizer string does not have %d letters: %r' % (n, strings))
    strings_n = [s for s in strings if len(s) == n]
    for a, b in itertools.combinations(strings_n, 2):
        out.state()
        out.check(strings_commute(a, b), site + '/listed_stabilizers_do_not_commute', 'listed strings %s and %s anticommute' % (a, b), listed=strings)
    pr = pauli_ref(n)
    exp_val = np.zeros((K, len(strings_n)), dtype=np.complex128)
    for k, s in enumerate(strings_n):
        out.state()
        img = pr.apply_string(cw, s)
        exp_val[:, k] = np.einsum('ix,ix->i', cw.conj(), img)
        dev = float(np.abs(img - cw).max())
        out.check(dev <= 2 * ta, site + '/listed_stabilizer_does_not_fix_codeword',
                  'listed stabilizer %s does not fix the code words: max |S c - c| = %.3g (tol %.3g), <c|S|c> = %s' % (s, dev, 2 * ta, np.round(exp_val[:, k], 6)),
                  string=s, code=NAME[tag], origin=origin)
        out.outcome(('listed', tag, k, np.round(exp_val[:, k], 6)), nontrivial=weight(s) > 0)
    out.count('listed_generators_independent' if gf2_rank(strings_n) == len(strings_n) else 'listed_generators_dependent')
    # ---- check_stabilizer (numqi) against the reference expectation values of the listed strings
    if len(stab) == len(strings_n):
        out.trans()
        got = np.asarray(numqi.qec.check_stabilizer(stab, cw))
        okc = got.shape == exp_val.shape and float(np.abs(got - exp_val).max()) <= ti
        out.check(okc, SITE_I + ':check_stabilizer/differs_from_listed_pauli_expectation',
                  'check_stabilizer = %s, <c|S|c> of the listed strings = %s' % (np.round(got, 6).tolist(), np.round(exp_val, 6).tolist()), code=NAME[tag])
        check_stabilizer_forms(numqi, out, stab, strings_n, cw, n, c['n_gate'], NAME[tag])
    for k in range(N_STAB[tag], len(stab)):      # stabilizers beyond those the case list was built for
        stab_check(numqi, out, c, tag, strings, k)
    out.trace()
    out.sample = {'kind': 'code', 'code': NAME[tag], 'listed': strings, 'origin': origin}


def run_stab(numqi, case, out, env):
    tag, k = case['code'], case['k']
    c = build_code(numqi, tag, out)
    strings, origin = listed_strings(numqi, tag, c['n'], out)
    stab_check(numqi, out, c, tag, strings, k)


def stab_check(numqi, out, c, tag, strings, k):
    """stabilizer circuit k of the code on ALL basis states == listed string k; the circuit fixes every code word"""
    n, K, site, cw = c['n'], c['K'], c['site'], c['cw']
    stab = c['code']['stabilizer']
    if k >= len(stab) or k >= len(strings) or len(strings[k]) != n or cw.shape != (K, 1 << n):
        out.state()
        out.trans()
        out.count('stabilizer_index_absent')   # reported by the `code` case (stabilizer_count / listed_string_wrong_length / wrong_shape)
        return
    s = strings[k]
    terms = [(ch, q) for q, ch in enumerate(s) if ch != 'I']
    tgt, ph = pauli_on_basis(terms, n)
    obs = circuit_on_basis(stab[k], n, out, tgt, ph)
    ng = max(1, len(stab[k].gate_index_list))
    bad = obs['err'] > C_SAFE * EPS * ng
    out.outcome(('stab', n, obs['obs_tgt'], obs['obs_val']), nontrivial=not obs['identity'])
    if bad.any():
        x = int(np.flatnonzero(bad)[0])
        # root cause: does the parser itself turn the listed string into this (wrong) circuit?
        key = site + '/stabilizer_circuit_is_not_the_listed_string'
        try:
            again = numqi.qec.parse_simple_pauli(s, tag_circuit=True)
            e = np.zeros(1 << n, dtype=np.complex128)
            e[x] = 1
            got = np.asarray(again.apply_state(e)).astype(np.complex128)
            got[tgt[x]] -= ph[x]
            if np.abs(got).max() > C_SAFE * EPS * ng:
                key = K_PARSE_CIRC
        except Exception:
            pass
        out.violation(key, 'stabilizer circuit %d of %s is not the listed string %s: circuit |%s> has its largest amplitude %s, %s gives %s (circuit gates %s; circuit is the identity: %s)' % (
            k, NAME[tag], s, format(x, '0%db' % n), basis_text(obs['obs_tgt'], obs['obs_val'], x, n), s, basis_text(tgt, ph, x, n),
            [(g.name, repr(i)) for g, i in stab[k].gate_index_list], obs['identity']),
            code=NAME[tag], string=s, k=k, basis_state=x, n_bad_basis_states=int(bad.sum()), is_identity=obs['identity'])
    # the circuit fixes every code word
    ta = tol_amp(c['n_gate'] + ng)
    for i in range(K):
        out.state()
        out.trans()
        img = stab[k].apply_state(cw[i].copy())
        dev = float(np.abs(img - cw[i]).max())
        out.check(dev <= 2 * ta, site + '/stabilizer_circuit_does_not_fix_codeword',
                  'stabilizer circuit %d (%s) of %s moves code word %d by %.3g' % (k, s, NAME[tag], i, dev), code=NAME[tag], k=k, codeword=i)
    out.trace()
    out.sample = {'kind': 'stab', 'code': NAME[tag], 'k': k, 'string': s, 'circuit': [(g.name, repr(i)) for g, i in stab[k].gate_index_list]}


def run_kl(numqi, case, out, env):
    tag = case['code']
    q0, c0 = case['root']
    wmax = case['wmax']
    c = build_code(numqi, tag, out)
    n, K, d, site, cw = c['n'], c['K'], c['d'], c['site'], c['cw']
    if cw.shape != (K, 1 << n):
        out.state()
        out.trans()
        out.count('code_words_unusable')     # reported by the `code` case
        return
    tol = tol_ip(n, c['n_gate'])
    pr = pauli_ref(n)
    # the implementation's error list up to the explored weight, restricted to the subtree of the root Pauli
    lst = numqi.qec.make_error_list(n, wmax + 1)
    sub, sub_labels = [], []
    for e in lst:
        l = error_label(e, n)
        if l is not None and l[0] == (q0, c0):
            sub.append(e)
            sub_labels.append(l)
    index = {}
    for i, l in enumerate(sub_labels):
        index.setdefault(l, i)
    ips = ip_backends(numqi, cw, sub)
    shape_ok = all(ip.shape == (len(sub), K, K) for ip in ips.values())
    if not out.check(shape_ok, SITE_I + ':knill_laflamme_inner_product/wrong_shape', 'inner product has shape %r for %d errors and K=%d'
                     % ({k: v.shape for k, v in ips.items()}, len(sub), K), code=NAME[tag]):
        return
    cc = cw.conj()
    Mref = np.zeros((len(sub), K, K), dtype=np.complex128)
    visited = np.zeros(len(sub), dtype=bool)
    stat = dict(n_below=0, n_diff=0, max_viol=0.0, n_cE_nonzero=0)
    eyeK = np.eye(K, dtype=bool)

    def visit(Epsi, label, w):
        out.state()
        out.trans()
        M = cc @ Epsi.T            # M[i,j] = <c_i| E |c_j>
        nz = bool(np.abs(M).max() > 1e-6)
        out.outcome((w <= d - 1, np.abs(M) if K <= 8 else np.round(np.abs(M), 3).sum(axis=1)), nontrivial=nz)
        if w <= d - 1:
            stat['n_below'] += 1
            off = float(np.abs(M[~eyeK]).max()) if K > 1 else 0.0
            dg = np.diagonal(M)
            spread = float(np.abs(dg - dg.mean()).max())
            stat['max_viol'] = max(stat['max_viol'], off, spread)
            if nz:
                stat['n_cE_nonzero'] += 1
            if max(off, spread) > tol:
                out.violation(site + '/knill_laflamme_violated',
                              '%s: error %s of weight %d < d=%d has <i|E|j> != c_E delta_ij: max off-diagonal %.3g, diagonal spread %.3g (tol %.3g)'
                              % (NAME[tag], label_text(label), w, d, off, spread, tol), code=NAME[tag], error=label_text(label),
                              matrix=(M if K <= 8 else None))
        else:
            stat['n_diff'] += 1
        i = index.get(label)
        if i is None:
            out.violation(SITE_I + ':make_error_list/missing_admissible_error/in_kl_tree', 'make_error_list(%d, %d) does not contain the error %s'
                          % (n, wmax + 1, label_text(label)), num_qubit=n, distance=wmax + 1, error=label_text(label))
            return
        visited[i] = True
        Mref[i] = M
        for be, ip in ips.items():
            dev = float(np.abs(ip[i] - M).max()) if np.all(np.isfinite(ip[i])) else float('inf')
            if dev > tol:
                out.violation('%s:knill_laflamme_inner_product/differs_from_reference/backend=%s' % (SITE_I, be),
                              '%s: <i|E|j> for E=%s differs from the bit-operation reference by %.3g (tol %.3g)' % (NAME[tag], label_text(label), dev, tol),
                              code=NAME[tag], error=label_text(label), got=(ip[i] if K <= 8 else None), expected=(M if K <= 8 else None))

    def dfs(Epsi, label, last_q, w):
        visit(Epsi, label, w)
        out.trace()
        if w < wmax:
            for q in range(last_q + 1, n):
                for ch in 'XYZ':
                    dfs(pr.apply(Epsi, ch, q), label + ((q, ch),), q, w + 1)

    dfs(pr.apply(cw, c0, q0), ((q0, c0),), q0, 1)
    if not visited.all():
        i = int(np.flatnonzero(~visited)[0])
        out.violation(SITE_I + ':make_error_list/inadmissible_error/in_kl_tree', 'make_error_list(%d, %d) contains %s, which is not a Pauli of weight 1..%d (or a duplicate)'
                      % (n, wmax + 1, label_text(sub_labels[i]), wmax), num_qubit=n, distance=wmax + 1, error=label_text(sub_labels[i]))
    # ---- loss: below the distance (must vanish) and on the differential level (must equal the reference, non-zero)
    wts = np.array([len(l) for l in sub_labels])
    losses = {}
    for name, sel in (('below', wts <= d - 1), ('level_d', wts == d)):
        if sel.any() and visited[sel].all():
            r = compare_loss(numqi, out, {k: v[sel] for k, v in ips.items()}, Mref[sel], tol,
                             dict(code=NAME[tag], root=label_text(((q0, c0),)), level=name))
            losses[name] = {('%s/%s' % k): v for k, v in r.items()}
            out.outcome(('loss', name, round(r[('L2', 'ref')], 6), round(r[('L1', 'ref')], 6)), nontrivial=r[('L2', 'ref')] > 1e-9)
    out.agg = {'kind': 'kl', 'code': tag, 'wmax': wmax, 'n_below': stat['n_below'], 'n_diff': stat['n_diff'], 'max_viol': stat['max_viol'],
               'n_cE_nonzero': stat['n_cE_nonzero'], 'loss_below_L2': losses.get('below', {}).get('L2/numpy'),
               'loss_level_d_L2': losses.get('level_d', {}).get('L2/numpy')}
    out.sample = {'kind': 'kl', 'code': NAME[tag], 'root': label_text(((q0, c0),)), 'errors_below_d': stat['n_below'], 'errors_at_d': stat['n_diff']}


def run_enum(numqi, case, out, env):
    tag = case['code']
    c = build_code(numqi, tag, out)
    n, K, d, site, cw = c['n'], c['K'], c['d'], c['site'], c['cw']
    out.state()
    if cw.shape != (K, 1 << n):
        out.trans()
        out.count('code_words_unusable')
        return
    Ksub = case.get('Ksub')
    name = NAME[tag]
    if Ksub is not None:
        # sub-code spanned by the first K' code words: an ((n, K', >= d)) code (the Knill-Laflamme conditions of a subspace
        # follow from those of the code), K' not necessarily a power of two (np.pad branch of quantum_weight_enumerator)
        assert 1 <= Ksub < K
        cw = cw[:Ksub]
        K = Ksub
        name = '%s[:%d]' % (NAME[tag], Ksub)
        out.count('enum_subcode_K_not_power_of_two' if (K & (K - 1)) else 'enum_subcode_K_power_of_two')
    A, B = ref_enumerators(cw, n)            # A[0..n], B[0..n] of the implementation's code words
    kap = 2 * (2 ** n + 2 * c['n_gate'])

    def tol_j(j):
        return C_SAFE * EPS * (kap + n_errors(n, j)) * max(1.0, B[j])
    key = SITE_I + ':quantum_weight_enumerator'
    qual = '/K_not_power_of_two' if (K & (K - 1)) else ''      # a defect of the padding branch gets its own key

    def rules(a, b, who, keybase):
        """a, b: arrays [0..n] including the weight-0 entries"""
        tsum = sum(tol_j(j) for j in range(n + 1))
        out.check(abs(a.sum() - 2 ** n / K) <= tsum, keybase + '/sum_rule_A', '%s %s: sum_j A_j = %.12g, expected 2^n/K = %g' % (name, who, a.sum(), 2 ** n / K),
                  code=name, A=a)
        out.check(abs(b.sum() - 2 ** n * K) <= tsum, keybase + '/sum_rule_B', '%s %s: sum_j B_j = %.12g, expected 2^n K = %g' % (name, who, b.sum(), 2 ** n * K),
                  code=name, B=b)
        for j in range(n + 1):
            out.check(a[j] >= -tol_j(j) and a[j] <= b[j] + tol_j(j), keybase + '/A_exceeds_B', '%s %s: A_%d = %.12g, B_%d = %.12g' % (name, who, j, a[j], j, b[j]),
                      code=name, A=a, B=b)
        for j in range(d):
            out.check(abs(a[j] - b[j]) <= tol_j(j), keybase + '/A_differs_from_B_below_distance',
                      '%s %s: A_%d = %.12g != B_%d = %.12g although %d < d = %d' % (name, who, j, a[j], j, b[j], j, d), code=name, A=a, B=b)
    out.check(abs(A[0] - 1) <= tol_j(0) and abs(B[0] - 1) <= tol_j(0), site + '/codewords_not_orthonormal', 'A_0, B_0 = %r, %r' % (A[0], B[0]), code=name)
    rules(A, B, 'reference enumerator of the code words', site + '/enumerator')
    out.outcome(('enum', tag, K, np.round(A, 6), np.round(B, 6)), nontrivial=True)
    if case['impl']:
        out.trans()
        gA, gB = numqi.qec.quantum_weight_enumerator(cw)
        gA, gB = np.asarray(gA, dtype=np.float64), np.asarray(gB, dtype=np.float64)
        if n <= 6:
            # result-neutral option axis: the progress-bar switch must not change the enumerator
            import contextlib, io
            with contextlib.redirect_stderr(io.StringIO()):
                tA, tB = numqi.qec.quantum_weight_enumerator(cw, use_tqdm=True)
            tA, tB = np.asarray(tA, dtype=np.float64), np.asarray(tB, dtype=np.float64)
            out.trans()
            out.check(tA.shape == gA.shape and tB.shape == gB.shape and np.array_equal(tA, gA) and np.array_equal(tB, gB), key + '/use_tqdm_changes_result',
                      '%s: quantum_weight_enumerator(use_tqdm=True) = %r, %r; use_tqdm=False = %r, %r' % (name, tA.tolist(), tB.tolist(), gA.tolist(), gB.tolist()),
                      code=name)
        if out.check(gA.shape == (n,) and gB.shape == (n,) and np.all(np.isfinite(gA)) and np.all(np.isfinite(gB)), key + '/wrong_shape_or_nonfinite' + qual,
                     'quantum_weight_enumerator returns shapes %r %r' % (gA.shape, gB.shape), code=name):
            for j in range(1, n + 1):
                out.check(abs(gA[j - 1] - A[j]) <= tol_j(j) and abs(gB[j - 1] - B[j]) <= tol_j(j), key + '/differs_from_reference' + qual,
                          '%s: quantum_weight_enumerator A_%d, B_%d = %.12g, %.12g; reference %.12g, %.12g' % (name, j, j, gA[j - 1], gB[j - 1], A[j], B[j]),
                          code=name, A=gA, B=gB, A_ref=A, B_ref=B)
            # documented convention: the weight-0 entries A_0 = B_0 = 1 are not returned
            rules(np.concatenate([[1.0], gA]), np.concatenate([[1.0], gB]), 'quantum_weight_enumerator', key + qual)
            out.outcome(('enum_impl', tag, K, np.round(gA, 6), np.round(gB, 6)), nontrivial=bool(np.abs(gB).max() > 1e-9))
        out.trace()
    else:
        out.count('enumerator_reference_only')
    out.sample = {'kind': 'enum', 'code': name, 'K': K, 'A': np.round(A, 6).tolist(), 'B': np.round(B, 6).tolist(), 'through_numqi': case['impl']}


def finalize(aggs, out, env):
    """cross-case invariant: the root subtrees of one code partition the errors below the distance"""
    per = {}
    for _, a in aggs:
        if isinstance(a, dict) and a.get('kind') == 'kl':
            per.setdefault(a['code'], []).append(a)
    for tag, lst in per.items():
        _, n, K, d = CODE_BY_TAG[tag]
        if len(lst) != 3 * n:
            out.count('finalize_skipped_incomplete_code')   # filtered (--only) or cut by a deadline
            continue
        tot = sum(a['n_below'] for a in lst)
        exp = sum(n_errors(n, w) for w in range(1, d))
        out.state()
        if tot != exp:
            raise AssertionError('harness: %s explored %d errors below the distance, expected %d' % (tag, tot, exp))
        wmax = lst[0]['wmax']
        if wmax == d:
            totd = sum(a['n_diff'] for a in lst)
            if totd != n_errors(n, d):
                raise AssertionError('harness: %s explored %d errors of weight d, expected %d' % (tag, totd, n_errors(n, d)))
            # the differential level must be non-vacuous for at least one root, otherwise say so in the evidence
            if not any((a['loss_level_d_L2'] or 0) > 1e-9 for a in lst):
                out.count('differential_level_vacuous[%s]' % tag)
        out.outcome(('total', tag, tot, sum(a['n_cE_nonzero'] for a in lst)), nontrivial=True)
