"""C11 - measurement is a valid projective measurement on any qubit subset.

Spaces (DESIGN.md section 4, C11). Every space is enumerated completely; the random generator of the library is
replaced by a stub whose `choice` returns a harness answer, so *which outcome is drawn* is an environment answer that
is enumerated too (every index with non-zero probability).

  A  direct   : numqi.sim.state.measure_quantum_vector(psi, S, stub) for all n <= n_max, ALL 2^n-1 non-empty ascending
                subsets S, all states of a structured alphabet (all basis states, |+>^n, GHZ, W, products over the qubit
                alphabet {0,1,+,-,+i,-i}, product of generic 1-qubit atoms, generic atoms with a zero block / even
                parity only, generic atoms, complex64/float64/float32 variants), all reachable outcomes.
                History of depth 2 on every point: measure S, then measure S again (all reachable answers).
                Integer seeds 0..R-1 with the real generator: outcome must have non-zero probability, be consistent
                and be reproducible.
  B  seq      : all unordered pairs {A,B} of distinct subsets, both orders, all outcome pairs: joint probability and
                final state equal the Born rule for the combined assignment; A-then-B == B-then-A.
  C  circuit  : all programs  [g1] M(S1) [g2] M(S2)  on n qubits (g from a gate menu, all S1,S2), all answer pairs,
                executed by Circuit.apply_state on one re-used Circuit object: MeasureGate.bitstr/.probability equal the
                reference computed on the state *at that point* of the circuit; final state equal.
     circuit1 : [entangling layer] M(S) for ALL subsets of 5 (6) qubits (reaches complements with >= 3 groups).
     shift    : the same programs after Circuit.shift_qubit_index_(d).
     torch    : the same programs executed by CircuitTorchWrapper.forward.
     seeded   : MeasureGate with integer seeds, with seed=None / the seed argument omitted (entropy owned by the engine's EntropySeam),
                and with ONE real np.random.Generator shared by both measurements (outcomes mirrored by a fresh default_rng(s) drawing
                choice(len(p), p=p) once per measurement); apply_state three times in a row.
     index_form: the same programs with Circuit.measure(list | tuple of np.int64 | int | np.int64); bookkeeping (MeasureGate.index,
                gate_index_list entry, num_qubit) must not depend on the form.
     compose  : c1 = [front gate] + extend_circuit(c0) (or append_gate entry by entry), c1.shift_qubit_index_(d), d in {0,1,2}; c1 is run
                and compared with the reference of its own gate_index_list. (Running c0 after c1 was shifted is out of scope: the
                MeasureGate record objects are shared by design; counted as shared_measure_gate_outside_scope.)
     torch    : additionally with trainable ry gates (requires_grad=True) ahead of / between the measurements and with complex64 input.
  A' direct, further argument axes: seed=None and seed omitted on every point; non-contiguous q0 (buf[::2], a column of a 2-D array,
                NaN padding) bit-identical to the contiguous call; B': one real Generator shared by the two calls of a sequence.
Oracle: explicit projector P = kron_i |b_i><b_i| embedded with mc.ref.embed (kron + axis permutation); Born marginal =
<psi|P|psi>; post state P psi/|P psi|.
"""
import functools
import itertools

import numpy as np

from mc import core, ref
from mc.seams import StubGenerator, clear_numqi_caches

PROPERTY = 'C11'
GUARD = ['numqi.sim.state']  # argument-immutability oracle (mc.seams.ImmutabilityGuard)
LEVEL = 'model_checking'
RULE = ('state = (qubit count, measured subset(s), input state, history of outcomes chosen by the stub generator); every non-empty '
        'ascending subset x every alphabet state x every outcome with non-zero Born probability is executed on the real '
        'measure_quantum_vector / Circuit.apply_state; transition = one implementation call (or one MeasureGate record) compared with '
        'the explicit-projector reference; trace = one complete history (measure+re-measure, A-then-B and B-then-A, one circuit run) '
        'validated step by step; non-trivial = the outcome distribution at that point is not 0/1. Argument axes enumerated one deviation '
        'from the default at a time: index forms (direct and Circuit.measure), seed forms (stub, int, None, omitted, one shared real '
        'Generator), memory layout of q0 (contiguous, every-second-element view, column view), executor (apply_state, torch wrapper, '
        'torch wrapper with trainable ry, complex64 input), circuit history (re-use, shift_qubit_index_, extend_circuit/append_gate + shift)')
ASSUMPTIONS = [
    'qubit 0 is the most significant tensor factor (numqi-wide convention); bitstr[i] is the outcome of qubit index[i] and prob[k] '
    'belongs to the outcome whose big-endian bit string is k',
    'input states are normalised vectors of length 2^n with a floating dtype (integer dtypes are outside); any 1-D memory layout; index is '
    'an int, a tuple or a list of python or numpy integers (documented forms)',
    'a real np.random.Generator passed as seed is consumed by exactly one choice(len(prob), p=prob) per measurement; the mirror generator '
    'is fed the returned/recorded prob (which is itself compared with the reference), so the mirrored draw is bit-exact',
    'seed=None draws from np.random.default_rng(), which the engine seeds (EntropySeam); only validity of the reported outcome is required',
    'a MeasureGate object belongs to one circuit position: after extend_circuit the outer circuit is run, the inner one is not run again '
    '(shared record objects are outside the property; counted, not run)',
    'the torch wrapper computes in the precision numqi chooses; for complex64 input the tolerance uses eps(float32)',
    'the only randomness of a measurement is one call np_rng.choice(len(prob), p=prob); the stub answers it with every index of '
    'non-zero probability in turn',
    'gate matrices inside circuits are taken from the Gate objects and embedded by mc.ref (gate application itself is property C03)',
    'in-circuit outcomes whose reference probability is below 1e-9 are rounding residue, not reachable outcomes (counted, not run)',
]
CHUNK = 1

C_SAFETY = 1e3  # fixed safety constant of DESIGN.md 3.2
P_MIN_CIRCUIT = 1e-9


# ----------------------------------------------------------------------------------------------- reference model
def bits_of(k, m):
    return [(int(k) >> (m - 1 - i)) & 1 for i in range(m)]


def index_of(bits):
    k = 0
    for b in bits:
        k = 2 * k + int(b)
    return k


@functools.lru_cache(maxsize=None)
def outcome_index(n, S):
    """for every computational basis index x: the outcome k the qubits S show. Built from explicit projectors
    P_k = embed(kron_i |b_i><b_i|, S, n) (mc.ref.embed: kron + axis permutation), one per outcome."""
    m = len(S)
    e = [np.diag([1.0, 0.0]).astype(np.complex128), np.diag([0.0, 1.0]).astype(np.complex128)]
    ret = np.full(2**n, -1, dtype=np.int64)
    for k in range(2**m):
        P = ref.embed(ref.kron(*[e[b] for b in bits_of(k, m)]), list(S), n)
        d = np.real(np.diag(P))
        assert np.all((d == 0) | (d == 1)) and np.abs(P - np.diag(d)).max() == 0
        assert np.all(ret[d == 1] == -1)
        ret[d == 1] = k
    assert ret.min() >= 0
    return ret


def ref_marginal(psi, n, S):
    w = np.abs(np.asarray(psi).astype(np.complex128))**2
    return np.bincount(outcome_index(n, tuple(S)), weights=w, minlength=2**len(S))


def ref_project(psi, n, S, k):
    """(<psi|P_k|psi>, P_k psi / |P_k psi|)"""
    v = np.where(outcome_index(n, tuple(S)) == k, np.asarray(psi).astype(np.complex128), 0)
    p = float((np.abs(v)**2).sum())
    return p, (v / np.sqrt(p) if p > 0 else None)


def complement_groups(n, S):
    """number of maximal runs of unmeasured qubits"""
    kind = [q in set(S) for q in range(n)]
    return sum(1 for k, _ in itertools.groupby(kind) if not k)


def all_subsets(n):
    """all non-empty ascending subsets, smallest first"""
    return [tuple(c) for m in range(1, n + 1) for c in itertools.combinations(range(n), m)]


# ----------------------------------------------------------------------------------------------- alphabets
_s = 1 / np.sqrt(2)
QUBIT = {'0': np.array([1, 0], dtype=np.complex128), '1': np.array([0, 1], dtype=np.complex128),
         '+': np.array([_s, _s], dtype=np.complex128), '-': np.array([_s, -_s], dtype=np.complex128),
         'R': np.array([_s, 1j * _s], dtype=np.complex128), 'L': np.array([_s, -1j * _s], dtype=np.complex128)}
QKEYS = ['0', '1', '+', '-', 'R', 'L']


def kron_vec(vs):
    ret = np.ones(1, dtype=np.complex128)
    for v in vs:
        ret = np.kron(ret, v)
    return ret


def atom(env, n, j):
    """generic atom j on n qubits: the only seed dependent inputs"""
    return ref.rand_state(env.rng('C11', 'atom', n, j), 2**n)


def qubit_atoms(env, n):
    rng = env.rng('C11', 'qubit-atoms', n)
    return [ref.rand_state(rng, 2) for _ in range(n)]


def n_atoms(tier):
    return 2 if tier == 'quick' else 4


def full_product_bound(tier):
    return 3 if tier == 'quick' else 4


def alphabet(n, env, purpose):
    """list of (name, vector). purpose: 'direct' (full), 'seq' (medium), 'circuit' (inputs of programs)"""
    tier = env.tier
    B = ref  # noqa
    N = 2**n
    ret = []

    def basis(x):
        v = np.zeros(N, dtype=np.complex128)
        v[x] = 1
        return v
    ghz = (basis(0) + basis(N - 1)) / np.sqrt(2)
    w = sum(basis(1 << q) for q in range(n)) / np.sqrt(n)
    gprod = kron_vec(qubit_atoms(env, n))
    a0 = atom(env, n, 0)
    par = np.array([bin(x).count('1') % 2 for x in range(N)])
    even = np.where(par == 0, atom(env, n, 100), 0)
    even = even / np.linalg.norm(even)

    def zero_block(j):
        # generic atom with qubit j forced to |0>: every outcome with bit_j = 1 has probability exactly zero
        v = np.where(outcome_index(n, (j,)) == 0, atom(env, n, 200 + j), 0)
        return v / np.linalg.norm(v)
    def near_basis(x0, eps_):
        # nearly (not exactly) an eigenstate of every measured subset: sqrt(1-eps)|x0> + sqrt(eps)|generic rest>
        rest = atom(env, n, 300 + x0).copy()
        rest[x0] = 0
        rest = rest / np.linalg.norm(rest)
        return np.sqrt(1 - eps_) * basis(x0) + np.sqrt(eps_) * rest
    if purpose == 'circuit':
        ret.append(('basis:' + '0' * n, basis(0)))
        ret.append(('near0:1e-06', near_basis(0, 1e-6)))
        ret.append(('gprod', gprod))
        if tier != 'quick':
            ret.append(('atom0', a0))
        return ret
    if purpose == 'seq':
        alt = int(('01' * n)[:n], 2)
        ret.append(('basis:' + format(alt, '0%db' % n), basis(alt)))
        ret.append(('plus', kron_vec([QUBIT['+']] * n)))
        if n >= 2:
            ret.append(('ghz', ghz))
            ret.append(('w', w))
            ret.append(('even', even))
            ret.append(('zero0', zero_block(0)))
        ret.append(('prod:' + ''.join(QKEYS[q % 6] for q in range(n)), kron_vec([QUBIT[QKEYS[q % 6]] for q in range(n)])))
        ret.append(('gprod', gprod))
        ret.append(('atom0', a0))
        ret.append(('near0:1e-06', near_basis(0, 1e-6)))
        if tier != 'quick':
            ret.append(('atom1', atom(env, n, 1)))
        return ret
    # ---- direct
    for x in range(N):
        ret.append(('basis:' + format(x, '0%db' % n), basis(x)))
    ret.append(('plus', kron_vec([QUBIT['+']] * n)))
    if n >= 2:
        ret.append(('ghz', ghz))
        ret.append(('w', w))
    if n <= full_product_bound(tier):
        for ks in itertools.product(QKEYS, repeat=n):
            if all(k in '01' for k in ks) or all(k == '+' for k in ks):
                continue  # already present as basis states / plus
            ret.append(('prod:' + ''.join(ks), kron_vec([QUBIT[k] for k in ks])))
    else:
        for sh in range(6):
            ks = [QKEYS[(q + sh) % 6] for q in range(n)]
            ret.append(('prod:' + ''.join(ks), kron_vec([QUBIT[k] for k in ks])))
        ks = [QKEYS[(2 * q + 1) % 6] for q in range(n)][::-1]
        ret.append(('prod:' + ''.join(ks), kron_vec([QUBIT[k] for k in ks])))
    ret.append(('gprod', gprod))
    if n >= 2:
        ret.append(('even', even))
        for j in range(n):
            ret.append(('zero%d' % j, zero_block(j)))
    for j in range(n_atoms(tier)):
        ret.append(('atom%d' % j, atom(env, n, j)))
    # nearly collapsed states: outcome probabilities 1-eps and ~eps/2^n (every scale from 'clearly mixed' to 'below sqrt(eps_machine)')
    for eps_ in (1e-3, 1e-5, 3e-6, 1e-8, 1e-12):
        ret.append(('near%d:%g' % (N - 1, eps_), near_basis(N - 1, eps_)))
        if N > 2:
            ret.append(('near1:%g' % eps_, near_basis(1, eps_)))
    # dtype deviations (one coordinate away from the default complex128)
    ret.append(('atom0:complex64', a0.astype(np.complex64)))
    if n >= 2:
        ret.append(('w:complex64', w.astype(np.complex64)))
        ret.append(('zero0:complex64', zero_block(0).astype(np.complex64)))
    r = a0.real / np.linalg.norm(a0.real)
    ret.append(('atom0real:float64', r.astype(np.float64)))
    r32 = r.astype(np.float32)
    ret.append(('atom0real:float32', (r32 / np.linalg.norm(r32)).astype(np.float32)))
    return ret


# ----------------------------------------------------------------------------------------------- tolerances
def eps_of(arr):
    return float(np.finfo(np.asarray(arr).dtype).eps)


def tol_direct(q):
    """Direct call on an input that the reference reads bit-exactly.
    prob[k] = sum of at most 2^6 squared moduli (relative error <= (6+3) eps each, all terms >= 0 so no cancellation),
    post = psi[block]/sqrt(prob[k]) is a componentwise relative perturbation of a few eps of entries <= 1.
    For reduced-precision inputs the input itself is only normalised to ~eps(dtype), which the same bound covers.
    kappa = 1, so tol = C_SAFETY * eps(dtype)  (2.2e-13 for complex128, 1.2e-4 for complex64)."""
    return C_SAFETY * eps_of(q)


def tol_circuit(eps, n_gates, pathp):
    """State inside a circuit: every gate adds an absolute error <= ~4 eps to each amplitude (2x2 / 4x4 contractions), both in
    the implementation and in the reference; a measurement divides by sqrt(p_outcome), so the absolute error of the
    renormalised state is amplified by kappa = 1/sqrt(min p along the path). tol = C_SAFETY * eps * (1+gates) * kappa."""
    return C_SAFETY * eps * (1 + n_gates) / np.sqrt(pathp)


# ----------------------------------------------------------------------------------------------- reporting helpers
FN = 'sim.state/measure_quantum_vector'


def exc_key(e, ngroups, default_site=FN):
    site = core.exc_site(e)
    where = default_site if site is None else '%s:%s' % site
    grp = 'complement_groups>=3' if ngroups >= 3 else 'complement_groups<=2'
    return '%s/%s/%s' % (where, type(e).__name__, grp)


def ctx_detail(n, S, name, q, **kw):
    d = dict(n=n, subset=list(S), state_name=name, state=np.asarray(q))
    d.update(kw)
    return d


def verify_result(out, n, S, q, q_before, res, stub, k_drawn, p_ref, tol, det, exact_zero=True, ksuf=''):
    """all single-call obligations of the property. `res` = (bitstr, prob, post); stub may be None (real generator).
    Returns True if the result is usable for continuing the history. ksuf: finding-key suffix of the calling space."""
    m = len(S)
    ok = True
    if not (isinstance(res, tuple) and len(res) == 3):
        out.violation(FN + '/return_shape' + ksuf, 'does not return (bitstr, prob, q1)', **det)
        return False
    bitstr, prob, post = res
    prob = np.asarray(prob)
    post = np.asarray(post)
    # --- the distribution that was sampled
    if stub is not None:
        calls = [c for c in stub.log if c[0] == 'choice']
        if len(stub.log) != 1 or len(calls) != 1 or calls[0][1] != 2**m or calls[0][2] is None or calls[0][3] is not None:
            out.violation(FN + '/sampling_protocol' + ksuf, 'expected exactly one choice(2^m, p=prob) draw, saw %s' % ([(c[0], c[1], c[3]) for c in stub.log],), **det)
            return False
        p_log = calls[0][2]
        if p_log.shape != prob.shape or not np.array_equal(p_log, prob.astype(np.float64)):
            out.violation(FN + '/prob_returned_is_not_the_sampled_distribution' + ksuf, 'returned prob differs from the p handed to the generator', p_sampled=p_log, p_returned=prob, **det)
            ok = False
    if prob.shape != (2**m,) or prob.dtype.kind != 'f':
        out.violation(FN + '/prob_shape' + ksuf, 'prob has shape %s dtype %s, expected (%d,) real' % (prob.shape, prob.dtype, 2**m), **det)
        return False
    if not np.all(np.isfinite(prob)):
        out.violation(FN + '/prob_not_finite' + ksuf, 'NaN/Inf in prob', prob=prob, **det)
        return False
    if prob.min() < 0:
        out.violation(FN + '/prob_negative' + ksuf, 'negative probability %g' % prob.min(), prob=prob, **det)
        ok = False
    if abs(float(prob.astype(np.float64).sum()) - 1) > tol:
        out.violation(FN + '/prob_sum' + ksuf, 'probabilities sum to %r' % float(prob.sum()), prob=prob, tol=tol, **det)
        ok = False
    err = float(np.abs(prob.astype(np.float64) - p_ref).max())
    if err > tol:
        out.violation(FN + '/prob_not_born_marginal' + ksuf, 'prob differs from the Born marginal by %.3g (tol %.3g)' % (err, tol), prob=prob, born=p_ref, **det)
        ok = False
    if exact_zero:
        bad = np.nonzero((prob > 0) & (p_ref == 0))[0]
        if len(bad):
            out.violation(FN + '/zero_probability_outcome_reachable' + ksuf, 'outcome %s has Born probability exactly 0 but sampling weight %g' % (bits_of(bad[0], m), prob[bad[0]]), prob=prob, born=p_ref, **det)
            ok = False
    # --- the outcome
    if not (isinstance(bitstr, (list, tuple)) and len(bitstr) == m and all(int(b) in (0, 1) and int(b) == b for b in bitstr)):
        out.violation(FN + '/bitstr_malformed' + ksuf, 'bitstr=%r is not a list of %d bits' % (bitstr, m), **det)
        return False
    kb = index_of(bitstr)
    if k_drawn is not None and kb != k_drawn:
        out.violation(FN + '/bitstr_is_not_the_drawn_outcome' + ksuf, 'generator drew index %d (= bits %s of prob) but bitstr=%s' % (k_drawn, bits_of(k_drawn, m), list(bitstr)), **det)
        ok = False
    if not (p_ref[kb] > (0 if exact_zero else P_MIN_CIRCUIT)):
        out.violation(FN + '/outcome_has_zero_probability' + ksuf, 'reported outcome %s has Born probability %g' % (list(bitstr), p_ref[kb]), born=p_ref, **det)
        return False
    # --- the post-measurement state
    if post.shape != np.asarray(q).shape:
        out.violation(FN + '/post_shape' + ksuf, 'post state has shape %s' % (post.shape,), **det)
        return False
    if not np.all(np.isfinite(post)):
        out.violation(FN + '/post_not_finite' + ksuf, 'NaN/Inf in the post-measurement state', bitstr=list(bitstr), **det)
        return False
    nrm = float(np.linalg.norm(post.astype(np.complex128)))
    if abs(nrm - 1) > tol:
        out.violation(FN + '/post_not_normalized' + ksuf, 'post-measurement state has norm %r (outcome %s)' % (nrm, list(bitstr)), bitstr=list(bitstr), post=post, tol=tol, **det)
        ok = False
    _, expect = ref_project(q_before, n, S, kb)
    err = float(np.abs(post.astype(np.complex128) - expect).max())
    if err > tol:
        out.violation(FN + '/post_not_projection' + ksuf, 'post-measurement state differs from P psi/|P psi| for the reported outcome %s by %.3g (tol %.3g)' % (list(bitstr), err, tol),
                      bitstr=list(bitstr), post=post, expected=expect, **det)
        ok = False
    if not np.array_equal(np.asarray(q), q_before):
        out.violation(FN + '/input_mutated' + ksuf, 'the input vector was modified in place', **det)
        ok = False
    return ok


def call(numqi, q, index, seed):
    return numqi.sim.state.measure_quantum_vector(q, index, seed)


def stub_measure(numqi, out, n, S, q, k, name, index=None, site='direct', p_ref=None, exact_zero=True, extra=None, ksuf=''):
    """one stubbed call + all single-call checks. Returns (ok, res)"""
    stub = StubGenerator([int(k)])
    qb = np.array(q, copy=True)
    det = ctx_detail(n, S, name, qb, answer=int(k), site=site, **(extra or {}))
    out.trans()
    try:
        res = call(numqi, q, S if index is None else index, stub)
    except Exception as e:  # any exception on an admissible input is a violation (DESIGN 3.3)
        out.violation(exc_key(e, complement_groups(n, S)) + ksuf, '%s: measure_quantum_vector raised %s: %s (n=%d, qubits %s, %d groups of unmeasured qubits)'
                      % (site, type(e).__name__, str(e)[:120], n, list(S), complement_groups(n, S)), **det)
        return False, None
    if p_ref is None:
        p_ref = ref_marginal(qb, n, S)
    ok = verify_result(out, n, S, q, qb, res, stub, int(k), p_ref, tol_direct(qb), det, exact_zero=exact_zero, ksuf=ksuf)
    return ok, res


# ----------------------------------------------------------------------------------------------- kind: direct
def strided_states(tier, n):
    """state names on which the non-contiguous layouts are enumerated: the whole alphabet (thorough) or one state per class - basis,
    sparse, product, zero block, complex64, float32 - (quick; the layout can only interact with shape and dtype, not with values)"""
    if tier != 'quick':
        return None
    return {'basis:' + '1' * n, 'w' if n >= 2 else 'plus', 'gprod', 'zero0' if n >= 2 else 'atom0', 'atom0:complex64', 'atom0real:float32'}


def direct_state(numqi, out, n, S, name, q, n_seed, strided=True):
    """one (subset, input state) point: every reachable answer, re-measurement, integer seeds. False if the call raises."""
    m = len(S)
    p_ref = ref_marginal(q, n, S)
    reach = [k for k in range(2**m) if p_ref[k] > 0]
    nontrivial = len(reach) > 1
    tol = tol_direct(q)
    stub_results = {}
    for k in reach:
        out.state()
        ok, res = stub_measure(numqi, out, n, S, q, k, name, p_ref=p_ref)
        if res is None:
            return False  # the call raises for this (n,S)
        if not ok:
            continue
        out.outcome((n, S, list(res[0]), np.round(np.asarray(res[1], dtype=np.float64), 6)), nontrivial=nontrivial)
        stub_results[k] = res
        # ---- history of depth 2: measure the same qubits again, every reachable answer
        q1 = res[2]
        p2 = ref_marginal(q1, n, S)
        reach2 = [j for j in range(2**m) if p2[j] > 0]
        if reach2 != [k]:
            out.violation(FN + '/remeasure_other_outcome_reachable', 'after outcome %s a second measurement of the same qubits can give %s'
                          % (bits_of(k, m), [bits_of(j, m) for j in reach2]), **ctx_detail(n, S, name, q, answer=k))
        for j in reach2:
            ok2, res2 = stub_measure(numqi, out, n, S, q1, j, name + '|after:' + ''.join(map(str, bits_of(k, m))), site='remeasure', p_ref=p2)
            if res2 is None or not ok2:
                continue
            det = ctx_detail(n, S, name, q, first_outcome=bits_of(k, m))
            if list(res2[0]) != list(res[0]):
                out.violation(FN + '/remeasure_changes_outcome', 'second measurement gave %s after %s' % (list(res2[0]), list(res[0])), **det)
            e1 = float(abs(np.asarray(res2[1], dtype=np.float64)[k] - 1))
            if e1 > tol:
                out.violation(FN + '/remeasure_not_certain', 'second measurement repeats the outcome with probability %r only' % float(res2[1][k]), **det)
            e2 = float(np.abs(np.asarray(res2[2]).astype(np.complex128) - np.asarray(q1).astype(np.complex128)).max())
            if e2 > tol:
                out.violation(FN + '/remeasure_changes_state', 'second measurement moved the state by %.3g (tol %.3g)' % (e2, tol), **det)
            out.trace()
    # ---- real generator, integer seeds: consistency, reachability, reproducibility
    reached = set()
    for seed in range(n_seed):
        det = ctx_detail(n, S, name, q, seed=seed, site='seed')
        qb = np.array(q, copy=True)
        out.trans(2)
        try:
            r1 = call(numqi, q, S, seed)
            r2 = call(numqi, q, S, seed)
        except Exception as e:
            out.violation(exc_key(e, complement_groups(n, S)), 'seed: measure_quantum_vector(seed=%d) raised %s: %s' % (seed, type(e).__name__, str(e)[:120]), **det)
            return False
        if not verify_result(out, n, S, q, qb, r1, None, None, p_ref, tol, det):
            continue
        if list(r1[0]) != list(r2[0]) or not np.array_equal(r1[1], r2[1]) or not np.array_equal(r1[2], r2[2]):
            out.violation(FN + '/seed_not_reproducible', 'two calls with seed=%d differ: %s vs %s' % (seed, r1[0], r2[0]), **det)
        kb = index_of(r1[0])
        reached.add(kb)
        if kb in stub_results and not np.array_equal(stub_results[kb][2], r1[2]):
            out.violation(FN + '/stub_and_real_generator_disagree', 'same outcome %s, different post state under the stub and the real generator' % (r1[0],), **det)
    # ---- seed=None (the documented default) and the seed argument left out: the engine's EntropySeam owns the entropy, the outcome is
    #      whatever the real generator draws; all single-call obligations hold for the reported outcome
    for form in (('None', 'omitted') if strided else ('None',)):  # quick tier: the omitted-argument form on one state per class
        det = ctx_detail(n, S, name, q, seed=form, site='seed_default')
        qb = np.array(q, copy=True)
        out.trans()
        try:
            r0 = numqi.sim.state.measure_quantum_vector(q, S, None) if form == 'None' else numqi.sim.state.measure_quantum_vector(q, S)
        except Exception as e:
            out.violation(exc_key(e, complement_groups(n, S)) + '/seed_default', 'measure_quantum_vector(seed %s) raised %s: %s' % (form, type(e).__name__, str(e)[:120]), **det)
            return False
        if verify_result(out, n, S, q, qb, r0, None, None, p_ref, tol, det, ksuf='/seed_default'):
            kb = index_of(r0[0])
            out.count('default_seed_calls_verified')
            if kb in stub_results and not (np.array_equal(stub_results[kb][1], r0[1]) and np.array_equal(stub_results[kb][2], r0[2])):
                out.violation(FN + '/stub_and_real_generator_disagree/seed_default', 'same outcome %s, different prob/post state under the stub and the default generator' % (r0[0],), **det)
    # ---- non-contiguous input (every second element of a longer buffer; a column of a 2-D array), fresh stub, every reachable answer:
    #      bit-identical to the contiguous call; the padding is NaN (must be neither read nor written)
    for k, res in (stub_results.items() if strided else ()):
        for lay in ('step2', 'column'):
            if lay == 'step2':
                big = np.full(2 * len(q), np.nan, dtype=q.dtype)
                big[::2] = q
                view = big[::2]
            else:
                big = np.full((len(q), 3), np.nan, dtype=q.dtype)
                big[:, 1] = q
                view = big[:, 1]
            assert not view.flags['C_CONTIGUOUS'] or len(q) == 1
            pad_before = np.isnan(big).sum()
            ok, res2 = stub_measure(numqi, out, n, S, view, k, name, site='strided:' + lay, p_ref=p_ref, extra={'layout': lay}, ksuf='/strided')
            if res2 is None:
                return False
            det = ctx_detail(n, S, name, q, answer=int(k), layout=lay)
            if np.isnan(big).sum() != pad_before:
                out.violation(FN + '/input_mutated/strided', 'the buffer around the strided input was written to', **det)
            if ok:
                same = list(res2[0]) == list(res[0]) and np.asarray(res2[1]).dtype == np.asarray(res[1]).dtype and np.array_equal(res2[1], res[1]) \
                    and np.asarray(res2[2]).dtype == np.asarray(res[2]).dtype and np.array_equal(res2[2], res[2])
                out.check(same, FN + '/strided_input_differs_from_contiguous', 'layout %s: result is not bit-identical to the contiguous call (outcome %s)' % (lay, list(res[0])),
                          contiguous=[list(res[0]), res[1], res[2]], strided=[list(res2[0]), res2[1], res2[2]], **det)
                out.count('strided_calls_bit_identical' if same else 'strided_calls_differ')
    out.count('outcomes_reached_by_integer_seeds', len(reached))
    out.count('outcomes_reachable', len(reach))
    return True


def run_direct(numqi, out, env, n, S):
    clear_numqi_caches()
    m = len(S)
    n_seed = 4 if env.tier == 'quick' else 16
    states = alphabet(n, env, 'direct')
    sset = strided_states(env.tier, n)
    assert sset is None or sset <= {x[0] for x in states}
    for name, q in states:
        if not direct_state(numqi, out, n, S, name, q, n_seed, strided=(sset is None or name in sset)):
            break  # exception: reported once per (n,S); every other state raises identically (it depends on the shape only)
    else:
        # ---- index forms (documented: int or tuple; a list is converted by hf_tuple_of_int): one deviation from the default
        name, q = [x for x in states if x[0] == 'gprod'][0]
        forms = [('list', list(S))]
        if len(S) == 1:
            forms.append(('int', int(S[0])))
            forms.append(('np.int64', np.int64(S[0])))
        else:
            forms.append(('tuple_np.int64', tuple(np.int64(x) for x in S)))
        p_ref = ref_marginal(q, n, S)
        for fname, idx in forms:
            for k in range(2**m):
                out.state()
                ok, res = stub_measure(numqi, out, n, S, q, k, name, index=idx, site='index_form:' + fname, p_ref=p_ref, extra={'index_form': fname})
                if res is None:
                    break
    out.sample = {'kind': 'direct', 'n': n, 'subset': list(S), 'state': states[-5][0], 'vector': core.jsonable(states[-5][1])}


# ----------------------------------------------------------------------------------------------- kind: seq
def merged_assignment(A, a_bits, B, b_bits):
    asg = {}
    for q, b in list(zip(A, a_bits)) + list(zip(B, b_bits)):
        if asg.get(q, b) != b:
            return None
        asg[q] = b
    U = tuple(sorted(asg))
    return U, [asg[q] for q in U]


def run_path(numqi, out, n, q, name, A, B, tol):
    """measure A then B with every pair of reachable answers. Returns {assignment on A u B: (joint prob, final state)} or None"""
    ret = {}
    pA = ref_marginal(q, n, A)
    for a in [k for k in range(2**len(A)) if pA[k] > 0]:
        ok, r1 = stub_measure(numqi, out, n, A, q, a, name, site='seq:first', p_ref=pA)
        if r1 is None:
            return None
        if not ok:
            continue
        q1 = r1[2]
        pB = ref_marginal(q1, n, B)  # lock-step: the reference is stepped from the state the implementation is in
        for b in [k for k in range(2**len(B)) if pB[k] > 0]:
            out.state()
            ok, r2 = stub_measure(numqi, out, n, B, q1, b, name + '|after:%s=%s' % (list(A), bits_of(a, len(A))), site='seq:second', p_ref=pB)
            if r2 is None:
                return None
            if not ok:
                continue
            det = ctx_detail(n, A, name, q, second_subset=list(B), outcomes=[bits_of(a, len(A)), bits_of(b, len(B))])
            mg = merged_assignment(A, bits_of(a, len(A)), B, bits_of(b, len(B)))
            if mg is None:
                out.violation(FN + '/contradicting_outcomes_reachable', 'qubits measured twice show different values: %s=%s then %s=%s'
                              % (list(A), bits_of(a, len(A)), list(B), bits_of(b, len(B))), **det)
                continue
            U, ubits = mg
            pj_ref, fin_ref = ref_project(q, n, U, index_of(ubits))
            pj = float(r1[1][a]) * float(r2[1][b])
            if abs(pj - pj_ref) > 2 * tol:
                out.violation(FN + '/joint_probability_not_born', 'p(a)p(b|a)=%r but |P_ab psi|^2=%r' % (pj, pj_ref), **det)
            err = float(np.abs(np.asarray(r2[2]).astype(np.complex128) - fin_ref).max()) if fin_ref is not None else np.inf
            if err > 2 * tol:
                out.violation(FN + '/sequential_state_not_joint_projection', 'state after measuring %s then %s differs from the projection on the joint outcome by %.3g'
                              % (list(A), list(B), err), **det)
            ret[(U, tuple(ubits))] = (pj, np.asarray(r2[2]).astype(np.complex128))
            out.outcome((n, A, B, ubits, round(pj, 6)), nontrivial=0 < pj_ref < 1 - 1e-9)
    return ret


def shared_generator_path(numqi, out, n, q, name, A, B, sd, tol):
    rng = np.random.default_rng(sd)
    mirror = np.random.default_rng(sd)
    cur = q
    for step, T in enumerate((A, B)):
        det = ctx_detail(n, T, name, cur, site='shared_generator', shared_seed=sd, step=step, subsets=[list(A), list(B)])
        qb = np.array(cur, copy=True)
        out.trans()
        try:
            r = call(numqi, cur, T, rng)
        except Exception as e:
            out.violation(exc_key(e, complement_groups(n, T)) + '/shared_generator', 'measure_quantum_vector(seed=Generator) raised %s: %s' % (type(e).__name__, str(e)[:120]), **det)
            return False
        if not verify_result(out, n, T, cur, qb, r, None, None, ref_marginal(qb, n, T), tol, det, ksuf='/shared_generator'):
            return True
        k = int(mirror.choice(len(r[1]), p=r[1]))
        out.check(index_of(r[0]) == k, FN + '/shared_generator_draw_order', 'call %d with the shared default_rng(%d) reported %s, a fresh generator drawing once per call gives %s'
                  % (step, sd, list(r[0]), bits_of(k, len(T))), **det)
        cur = r[2]
    out.check(rng.bit_generator.state == mirror.bit_generator.state, FN + '/shared_generator_consumption',
              'after two calls the shared generator is not in the state of a generator that served one choice() per call', **ctx_detail(n, A, name, q, shared_seed=sd, second_subset=list(B)))
    out.count('shared_generator_paths')
    return True


def run_seq(numqi, out, env, n, A):
    subsets = all_subsets(n)
    iA = subsets.index(A)
    states = alphabet(n, env, 'seq')
    for B in subsets[iA + 1:]:
        for name, q in states:
            tol = tol_direct(q)
            x = run_path(numqi, out, n, q, name, A, B, tol)
            if x is None:
                break  # exception already reported
            y = run_path(numqi, out, n, q, name, B, A, tol)
            if y is None:
                break
            det = ctx_detail(n, A, name, q, second_subset=list(B))
            if set(x) != set(y):
                out.violation(FN + '/order_dependent_support', 'A-then-B and B-then-A reach different joint outcomes: %s' % sorted(set(x) ^ set(y)), **det)
            for key in set(x) & set(y):
                if abs(x[key][0] - y[key][0]) > 4 * tol or np.abs(x[key][1] - y[key][1]).max() > 4 * tol:
                    out.violation(FN + '/measurements_do_not_commute', 'joint outcome %s: A-then-B and B-then-A differ' % (key,), **det)
            out.trace(2)
            # ---- one real Generator handed to both measurements (both orders): outcomes are those of a fresh default_rng(s) that draws
            #      choice(len(p), p=p) once per call, in call order (p = the returned prob, itself compared with the Born marginal)
            for first, second in ((A, B), (B, A)):
                for sd in range(1 if env.tier == 'quick' else 2):
                    if not shared_generator_path(numqi, out, n, q, name, first, second, sd, tol):
                        break
    out.sample = {'kind': 'seq', 'n': n, 'first': list(A), 'second': list(subsets[-1]), 'state': states[-1][0], 'vector': core.jsonable(states[-1][1])}


# ----------------------------------------------------------------------------------------------- kind: circuit programs
def gate_menu(n, full=True):
    ev = [['H', q] for q in range(n)] + [['X', q] for q in range(n)] + [['ry', q, q] for q in range(n)]
    ev += [['cnot', a, b] for a in range(n) for b in range(n) if a != b]
    if full:
        return [None] + ev
    return [None, ['H', 0], ['ry', n - 1, 7], ['cnot', n - 1, 0]]


def theta_of(env, tag):
    """generic rotation angle (seed dependent atom), away from 0 and pi so that no outcome probability is tiny"""
    return float(env.rng('C11', 'theta', int(tag)).uniform(0.5, 2.6))


def entangling_layer(n):
    return [['ry', q, 20 + q] for q in range(n)] + [['cnot', q, q + 1] for q in range(n - 1)] + [['ry', q, 40 + q] for q in range(n)]


def shift_events(events, d):
    ret = []
    for ev in events:
        if ev[0] == 'M':
            ret.append(['M', [q + d for q in ev[1]]])
        elif ev[0] == 'ry':
            ret.append(['ry', ev[1] + d, ev[2]])
        elif ev[0] == 'cnot':
            ret.append(['cnot', ev[1] + d, ev[2] + d])
        else:
            ret.append([ev[0], ev[1] + d])
    return ret


INDEX_FORMS = ['list', 'tuple_np.int64', 'int', 'np.int64']  # besides the default tuple of python ints


def index_in_form(S, form):
    """the documented argument forms of `index` (int | tuple[int]; a list is converted by hf_tuple_of_int). The scalar forms exist for
    |S|=1 only; other measurements of the program keep the default tuple"""
    if form == 'list':
        return list(S)
    if form == 'tuple_np.int64':
        return tuple(np.int64(x) for x in S)
    if form == 'int' and len(S) == 1:
        return int(S[0])
    if form == 'np.int64' and len(S) == 1:
        return np.int64(S[0])
    return tuple(S)


def build_circuit(numqi, env, events, seeds=None, index_form=None, trainable=False):
    """the real Circuit for a program; measure gates get a stub generator (seeds=None) or the given seeds (int, None, a Generator,
    or 'omitted' = Circuit.measure called without the seed argument). trainable: ry gates are built with requires_grad=True"""
    circ = numqi.sim.Circuit()
    gates = []
    for ev in events:
        if ev[0] == 'M':
            s = StubGenerator([]) if seeds is None else seeds[sum(1 for g in gates if g[0] == 'M')]
            idx = index_in_form(tuple(ev[1]), index_form)
            g = circ.measure(idx) if isinstance(s, str) and s == 'omitted' else circ.measure(idx, seed=s)
            gates.append(('M', g, s))
        elif ev[0] == 'ry':
            if trainable:
                gates.append(('U', circ.ry(ev[1], theta_of(env, ev[2]), requires_grad=True), None))
            else:
                gates.append(('U', circ.ry(ev[1], theta_of(env, ev[2])), None))
        elif ev[0] == 'cnot':
            gates.append(('C', circ.cnot(ev[1], ev[2]), None))
        else:
            gates.append(('U', getattr(circ, ev[0])(ev[1]), None))
    return circ, gates


def ref_ops(events, gates, n):
    """reference operators: the Gate objects' own 2x2 matrices embedded by mc.ref (C03 owns gate application)"""
    ops = []
    for ev, (kind, g, _) in zip(events, gates):
        if kind == 'M':
            ops.append(('M', tuple(ev[1])))
        elif kind == 'C':
            ops.append(('U', ref.controlled(np.asarray(g.array, dtype=np.complex128), [ev[1]], [ev[2]], n)))
        else:
            ops.append(('U', ref.embed(np.asarray(g.array, dtype=np.complex128), [ev[1]], n)))
    return ops


def ref_leaves(out, ops, n, psi0):
    """DFS over all answer tuples with reference probability > P_MIN_CIRCUIT.
    leaf = (answers, [(S, prob vector at that point)], final state, min outcome probability on the path)"""
    leaves = []

    def rec(i, psi, answers, records, pathp):
        while i < len(ops) and ops[i][0] == 'U':
            psi = ops[i][1] @ psi
            i += 1
        if i == len(ops):
            leaves.append((answers, records, psi, pathp))
            return
        S = ops[i][1]
        p = ref_marginal(psi, n, S)
        for k in range(len(p)):
            if p[k] > P_MIN_CIRCUIT:
                rec(i + 1, ref_project(psi, n, S, k)[1], answers + [k], records + [(S, p)], min(pathp, p[k]))
            elif p[k] > 0:
                out.count('circuit_answers_below_1e-9_not_run')
    rec(0, np.asarray(psi0, dtype=np.complex128), [], [], 1.0)
    return leaves


CIRC = 'sim.circuit/MeasureGate'


def compare_run(out, n, events, ops, leaf, mgates, final, det, site, ksuf='', eps=None):
    """one executed circuit run against one reference leaf. ksuf: finding-key suffix of the calling space (e.g. '/compose')"""
    answers, records, psi_ref, pathp = leaf
    n_gates = sum(1 for o in ops if o[0] == 'U')
    if eps is None:
        eps = np.finfo(np.float64).eps
    tol = tol_circuit(eps, n_gates, pathp)
    ok = True
    for i, ((S, p), k, (_, g, stub)) in enumerate(zip(records, answers, mgates)):
        out.trans()
        m = len(S)
        if g.bitstr is None or g.probability is None:
            out.violation(CIRC + '/record_missing' + ksuf, '%s: measurement %d left bitstr/probability unset' % (site, i), **det)
            ok = False
            continue
        if list(g.bitstr) != bits_of(k, m):
            out.violation(CIRC + '/bitstr_not_outcome_at_that_point' + ksuf, '%s: measurement %d on %s recorded bitstr=%s, the drawn outcome is %s'
                          % (site, i, list(S), list(g.bitstr), bits_of(k, m)), measurement=i, **det)
            ok = False
        pr = np.asarray(g.probability, dtype=np.float64)
        if pr.shape != p.shape or not np.all(np.isfinite(pr)) or np.abs(pr - p).max() > tol:
            out.violation(CIRC + '/probability_not_state_at_that_point' + ksuf, '%s: measurement %d on %s recorded probability %s, Born marginal of the state at that point is %s'
                          % (site, i, list(S), np.round(pr, 6).tolist(), np.round(p, 6).tolist()), measurement=i, tol=tol, **det)
            ok = False
        if isinstance(stub, StubGenerator):
            if len(stub.log) != 1 or stub.log[0][0] != 'choice' or stub.log[0][1] != 2**m:
                out.violation(CIRC + '/sampling_protocol' + ksuf, '%s: measurement %d drew %s' % (site, i, [(c[0], c[1]) for c in stub.log]), **det)
                ok = False
            elif not np.array_equal(stub.log[0][2], pr):
                out.violation(CIRC + '/probability_is_not_the_sampled_distribution' + ksuf, '%s: measurement %d recorded a probability vector that is not the one sampled from' % (site, i), **det)
                ok = False
    final = np.asarray(final)
    if final.shape != psi_ref.shape or not np.all(np.isfinite(final)):
        out.violation('sim.circuit/Circuit.apply_state/final_state_malformed' + ksuf, '%s: final state has shape %s (expected %s) or contains NaN/Inf' % (site, final.shape, psi_ref.shape), final=final, **det)
        return False
    err = float(np.abs(final.astype(np.complex128) - psi_ref).max())
    if err > tol:
        out.violation('sim.circuit/Circuit.apply_state/final_state' + ksuf, '%s: final state differs from the reference by %.3g (tol %.3g) for answers %s' % (site, err, tol, answers),
                      final=final, expected=psi_ref, **det)
        ok = False
    return ok


def max_groups(events, n):
    return max([complement_groups(n, ev[1]) for ev in events if ev[0] == 'M'] + [0])


def expected_num_qubit(events):
    return 1 + max(max(ev[1]) if ev[0] == 'M' else max(ev[1:3] if ev[0] == 'cnot' else ev[1:2]) for ev in events)


def run_program(numqi, out, env, n, events, inputs, shift=None, executor='apply_state', site='circuit', index_form=None, trainable=False, in_dtype=None, ksuf=''):
    """all answer tuples of one program on every input, on ONE re-used Circuit object (records must be refreshed by every run).
    shift: list of deltas applied with shift_qubit_index_ after construction; the reference is built from the shifted program."""
    det0 = dict(n=n, program=events, shift=shift, executor=executor)
    if index_form is not None or trainable or in_dtype is not None:
        det0.update(index_form=index_form, trainable_ry=trainable, input_dtype=in_dtype)
    try:
        circ, gates = build_circuit(numqi, env, events, index_form=index_form, trainable=trainable)
    except Exception as e:
        out.violation(exc_key(e, 0, 'sim.circuit/Circuit.measure'), '%s: building the program raised %s: %s' % (site, type(e).__name__, str(e)[:120]), **det0)
        return
    n_run = n
    ev_run = events
    if shift:
        try:
            for d in shift:
                circ.shift_qubit_index_(d)
        except Exception as e:
            out.violation('sim.circuit/Circuit.shift_qubit_index_/%s' % type(e).__name__, 'shift_qubit_index_%s raised %s: %s' % (shift, type(e).__name__, str(e)[:120]), **det0)
            return
        dtot = sum(shift)
        n_run = n + dtot
        ev_run = shift_events(events, dtot)
        for ev, (kind, g, _) in zip(ev_run, gates):
            if kind == 'M' and tuple(g.index) != tuple(ev[1]):
                out.violation('sim.circuit/Circuit.shift_qubit_index_/measure_index_not_shifted', 'MeasureGate.index=%s after shift %s of a measurement on %s' % (g.index, shift, ev[1]), **det0)
                return
        nq_expect = expected_num_qubit(ev_run)
        if circ.num_qubit != nq_expect:
            out.violation('sim.circuit/Circuit.num_qubit/after_shift', 'num_qubit=%d after shift %s, expected %d' % (circ.num_qubit, shift, nq_expect), **det0)
    if index_form is not None:
        # the argument form must not leak into the bookkeeping: MeasureGate.index / gate_index_list entry are the tuple, num_qubit is right
        for ev, (kind, g, _), (_, idx) in zip(ev_run, gates, circ.gate_index_list):
            if kind == 'M':
                good = all(isinstance(x, tuple) and [int(y) for y in x] == list(ev[1]) for x in (g.index, idx))
                out.check(good, 'sim.circuit/Circuit.measure/index_form_bookkeeping', 'measure(%r): MeasureGate.index=%r, gate_index_list entry %r'
                          % (index_in_form(tuple(ev[1]), index_form), g.index, idx), **det0)
        try:
            nq = circ.num_qubit
            out.check(nq == expected_num_qubit(ev_run), 'sim.circuit/Circuit.num_qubit/index_form', 'num_qubit=%r, expected %d' % (nq, expected_num_qubit(ev_run)), **det0)
        except Exception as e:
            out.violation('sim.circuit/Circuit.num_qubit/index_form/%s' % type(e).__name__, 'num_qubit raised %s: %s' % (type(e).__name__, str(e)[:120]), **det0)
    execute_program(numqi, out, circ, gates, n_run, ev_run, inputs, det0, executor=executor, site=site, in_dtype=in_dtype, ksuf=ksuf)


def execute_program(numqi, out, circ, gates, n_run, ev_run, inputs, det0, executor='apply_state', site='circuit', ksuf='', in_dtype=None):
    """all answer tuples (reference leaves) of the program `ev_run` on every input, executed on the given Circuit object.
    gates = [(kind, gate object, stub)] in program order; the reference operators are built from these gate objects."""
    ops = ref_ops(ev_run, gates, n_run)
    mgates = [g for g in gates if g[0] == 'M']
    runner = None
    if executor == 'torch':
        import torch
        try:
            wrapper = numqi.sim.CircuitTorchWrapper(circ)
        except Exception as e:
            out.violation('sim._torch_utils/CircuitTorchWrapper/%s' % type(e).__name__, 'wrapping a circuit with measurements raised %s: %s' % (type(e).__name__, str(e)[:120]), **det0)
            return

        def runner(psi):
            with torch.no_grad():
                return wrapper(torch.from_numpy(psi)).detach().numpy()
    else:
        runner = circ.apply_state
    for name, psi0 in inputs(n_run):
        if in_dtype is not None:
            psi0 = psi0.astype(in_dtype)  # the reference reads the rounded input exactly
        leaves = ref_leaves(out, ops, n_run, psi0)
        for leaf in leaves:
            out.state()
            for (_, g, stub), k in zip(mgates, leaf[0]):
                stub.answers = [int(k)]
                stub.log = []
            det = dict(det0, input_name=name, input=psi0, answers=list(leaf[0]))
            q_in = np.array(psi0, copy=True)
            try:
                final = runner(q_in)
            except Exception as e:
                out.violation(exc_key(e, max_groups(ev_run, n_run), 'sim.circuit/Circuit.apply_state') + ksuf,
                              '%s: running the program raised %s: %s (n=%d, measured subsets %s)' % (site, type(e).__name__, str(e)[:120], n_run, [ev[1] for ev in ev_run if ev[0] == 'M']), **det)
                return
            eps = None
            if in_dtype is not None:
                # reduced-precision input: measure_quantum_vector keeps computing in the input precision (prob float32, post complex64)
                # until a complex128 gate matrix upcasts the state, so the per-step error is eps(input dtype) (cf. tol_direct)
                eps = eps_of(psi0)
            ok = compare_run(out, n_run, ev_run, ops, leaf, mgates, final, det, site, ksuf=ksuf, eps=eps)
            if not np.array_equal(q_in, psi0):
                out.violation('sim.circuit/Circuit.apply_state/input_mutated' + ksuf, '%s: the input state was modified in place' % site, **det)
            out.outcome((n_run, [ev[1] for ev in ev_run if ev[0] == 'M'], list(leaf[0]), [np.round(r[1], 6) for r in leaf[1]]),
                        nontrivial=any(0 < r[1].max() < 1 - 1e-9 for r in leaf[1]))
            if ok:
                out.trace()


def circuit_gates(circ):
    """[(kind, gate object, stub)] read from the circuit's OWN gate_index_list: after extend_circuit / shift_qubit_index_ the objects
    may be shared with another circuit or be copies, so they are not taken from build_circuit"""
    ret = []
    for g, _ in circ.gate_index_list:
        if g.kind == 'measure':
            if not isinstance(g.np_rng, StubGenerator):  # a copied gate may carry a copied (plain) generator
                g.np_rng = StubGenerator([])
            ret.append(('M', g, g.np_rng))
        else:
            ret.append(('C' if g.kind == 'control' else 'U', g, None))
    return ret


COMPOSE = 'sim.circuit/Circuit.extend_circuit'


def run_compose(numqi, out, env, n, events, front, d, via, inputs):
    """c0 = program, c1 = [front] + c0 (extend_circuit, or append_gate entry by entry), c1.shift_qubit_index_(d); c1 is run on all
    answers and compared with the reference built from c1's OWN gate_index_list.
    Out of scope (ruling on the audit list): extend_circuit shares the MeasureGate objects, which are per-position records (index,
    bitstr, probability), so running c0 again after c1 was shifted is a configuration of two circuits, not of one; it is counted only."""
    det0 = dict(n=n, program=events, front_gate=front, shift=d, via=via)
    try:
        c0, _ = build_circuit(numqi, env, events)
        c1, _ = build_circuit(numqi, env, [front])
        if via == 'extend':
            c1.extend_circuit(c0)
        else:
            for gate_i, index_i in c0.gate_index_list:
                c1.append_gate(gate_i, index_i)
        c1.shift_qubit_index_(d)
    except Exception as e:
        out.violation('%s/%s' % (COMPOSE, type(e).__name__), 'compose (%s, shift %d) raised %s: %s' % (via, d, type(e).__name__, str(e)[:120]), **det0)
        return
    out.count('shared_measure_gate_outside_scope')
    ev1 = shift_events([front] + events, d)
    entries = [tuple(int(x) for x in idx) for gate, idx in c1.gate_index_list if gate.kind == 'measure']
    expect = [tuple(ev[1]) for ev in ev1 if ev[0] == 'M']
    out.check(entries == expect, COMPOSE + '/gate_index_list_entry', 'composed circuit lists measurements on %s, expected %s' % (entries, expect), **det0)
    out.check(len(c1.gate_index_list) == len(ev1), COMPOSE + '/gate_count', 'composed circuit has %d gates, expected %d' % (len(c1.gate_index_list), len(ev1)), **det0)
    nq = c1.num_qubit
    out.check(nq == expected_num_qubit(ev1), 'sim.circuit/Circuit.num_qubit/after_compose', 'composed circuit: num_qubit=%d, expected %d' % (nq, expected_num_qubit(ev1)), **det0)
    if len(c1.gate_index_list) == len(ev1):
        execute_program(numqi, out, c1, circuit_gates(c1), n + d, ev1, inputs, det0, site='compose', ksuf='/compose')


def seeds_of_spec(spec):
    """spec: tuple of per-measurement seeds (int | None | 'omitted'), or ('shared', s): ONE real np.random.default_rng(s) handed to every
    measurement of the program. Returns (seeds for build_circuit, shared generator or None, reproducible?)"""
    if spec[0] == 'shared':
        rng = np.random.default_rng(int(spec[1]))
        return [rng] * 8, rng, True
    return list(spec), None, all(isinstance(x, int) for x in spec)


def run_seeded_program(numqi, out, env, n, events, inputs, seeds_list, repeats=3):
    """MeasureGate with the real generator: integer seeds, seed=None / seed argument omitted (entropy owned by the engine), or one
    np.random.Generator shared by all measurements. apply_state `repeats` times in a row on the same object; built twice
    (reproducibility, where the spec is reproducible). Shared generator: the recorded outcomes equal those of a fresh default_rng(s) that
    draws choice(len(p), p=p) once per measurement in program order (p = the recorded probability, itself compared with the reference)."""
    for seeds in seeds_list:
        det0 = dict(n=n, program=events, seeds=list(seeds))
        ksuf = '/shared_generator' if seeds[0] == 'shared' else ('' if all(isinstance(x, int) for x in seeds) else '/seed_default')
        for name, psi0 in inputs(n):
            hist = []
            for attempt in range(2):
                try:
                    seeds_now, shared, reproducible = seeds_of_spec(seeds)
                    mirror = np.random.default_rng(int(seeds[1])) if shared is not None else None
                    circ, gates = build_circuit(numqi, env, events, seeds=seeds_now)
                    mgates = [g for g in gates if g[0] == 'M']
                    ops = ref_ops(events, gates, n)
                    leaves = {tuple(l[0]): l for l in ref_leaves(core.Out(), ops, n, psi0)}
                    seq = []
                    for r in range(repeats):
                        out.state()
                        final = circ.apply_state(np.array(psi0, copy=True))
                        bits = [list(g.bitstr) for _, g, _ in mgates]
                        ans = tuple(index_of(b) for b in bits)
                        seq.append(bits)
                        det = dict(det0, input_name=name, input=psi0, run=r, observed=bits)
                        if mirror is not None:
                            expect = [bits_of(int(mirror.choice(len(g.probability), p=g.probability)), len(b)) for (_, g, _), b in zip(mgates, bits)]
                            out.check(expect == bits, CIRC + '/shared_generator_draw_order', 'shared default_rng(%d): recorded %s, a fresh generator drawing once per measurement gives %s'
                                      % (seeds[1], bits, expect), expected=expect, **det)
                        if ans not in leaves:
                            out.violation(CIRC + '/outcome_has_zero_probability' + ksuf, 'seeded: recorded outcomes %s are not reachable at that point of the circuit' % (bits,), **det)
                            continue
                        if compare_run(out, n, events, ops, leaves[ans], mgates, final, det, 'seeded', ksuf=ksuf):
                            out.trace()
                        out.outcome((n, events, bits), nontrivial=len(leaves) > 1)
                    if mirror is not None:
                        out.check(shared.bit_generator.state == mirror.bit_generator.state, CIRC + '/shared_generator_consumption',
                                  'after %d runs the shared generator is not in the state of a generator that served one choice() per measurement' % repeats, input_name=name, **det0)
                        out.count('shared_generator_programs')
                    elif not reproducible:
                        out.count('default_seed_programs')
                except Exception as e:
                    out.violation(exc_key(e, max_groups(events, n), 'sim.circuit/Circuit.apply_state') + ksuf, 'seeded: program raised %s: %s' % (type(e).__name__, str(e)[:120]), input_name=name, **det0)
                    seq = None
                    break
                hist.append(seq)
            if reproducible and len(hist) == 2 and hist[0] != hist[1]:
                out.violation(CIRC + '/seed_not_reproducible' + ksuf, 'two circuits built with the same seeds recorded %s and %s' % (hist[0], hist[1]), input_name=name, **det0)


def circuit_inputs(env):
    return lambda n: alphabet(n, env, 'circuit')


def programs_two(n, g1, full2):
    """[g1] M(S1) [g2] M(S2) for all S1, S2 and all g2 of the (full or reduced) menu"""
    for S1 in all_subsets(n):
        for g2 in gate_menu(n, full2):
            for S2 in all_subsets(n):
                ev = ([g1] if g1 else []) + [['M', list(S1)]] + ([g2] if g2 else []) + [['M', list(S2)]]
                yield ev


def run_circuit_case(numqi, out, env, case):
    n = case['n']
    inputs = circuit_inputs(env)
    mode = case['mode']
    if mode == 'two':
        g1 = case['g1']
        for ev in programs_two(n, g1, case['full2']):
            run_program(numqi, out, env, n, ev, inputs)
        out.sample = {'kind': 'circuit', 'mode': mode, 'n': n, 'program': ev}
    elif mode == 'three':
        g1 = case['g1']
        subs = all_subsets(n)
        for S1, S2, S3 in itertools.product(subs, repeat=3):
            ev = ([g1] if g1 else []) + [['M', list(S1)], ['H', 0], ['M', list(S2)], ['cnot', n - 1, 0], ['ry', n - 1, 9], ['M', list(S3)]]
            run_program(numqi, out, env, n, ev, inputs)
        out.sample = {'kind': 'circuit', 'mode': mode, 'n': n, 'program': ev}
    elif mode == 'one':
        # every subset of n qubits behind an entangling layer; also measured twice in one circuit with a gate in between
        S = tuple(case['S'])
        ev = entangling_layer(n) + [['M', list(S)]]
        run_program(numqi, out, env, n, ev, inputs, site='circuit1')
        if case.get('torch'):
            run_program(numqi, out, env, n, ev, inputs, executor='torch', site='torch1')
        out.sample = {'kind': 'circuit', 'mode': mode, 'n': n, 'program': ev}
    elif mode == 'shift':
        g1 = case['g1']
        for ev in programs_two(n, g1, False):
            for sh in case['shifts']:
                run_program(numqi, out, env, n, ev, inputs, shift=sh, site='shift')
        out.sample = {'kind': 'circuit', 'mode': mode, 'n': n, 'program': ev, 'shifts': case['shifts']}
    elif mode == 'index_form':
        g1 = case['g1']
        for ev in programs_two(n, g1, False):
            for form in INDEX_FORMS:
                if form in ('int', 'np.int64') and not any(e[0] == 'M' and len(e[1]) == 1 for e in ev):
                    continue  # no single-qubit measurement: identical to the default program
                run_program(numqi, out, env, n, ev, inputs, site='index_form:' + form, index_form=form, ksuf='/index_form')
                out.count('index_form_programs[%s]' % form)
        out.sample = {'kind': 'circuit', 'mode': mode, 'n': n, 'program': ev, 'forms': INDEX_FORMS}
    elif mode == 'compose':
        g1 = case['g1']
        for ev in programs_two(n, g1, False):
            for front in case['fronts']:
                for d in case['shifts']:
                    for via in ('extend', 'append_gate'):
                        run_compose(numqi, out, env, n, ev, front, d, via, inputs)
        out.sample = {'kind': 'circuit', 'mode': mode, 'n': n, 'program': ev, 'fronts': case['fronts'], 'shifts': case['shifts']}
    elif mode == 'torch':
        g1 = case['g1']
        for ev in programs_two(n, g1, False):
            run_program(numqi, out, env, n, ev, inputs, executor='torch', site='torch')
            if any(e[0] == 'ry' for e in ev):
                # trainable gate ahead of / between the measurements: the wrapper recomputes its matrix from a torch Parameter
                run_program(numqi, out, env, n, ev, inputs, executor='torch', site='torch:trainable', trainable=True, ksuf='/trainable')
                out.count('torch_programs_with_trainable_ry')
            if case.get('complex64'):
                run_program(numqi, out, env, n, ev, inputs, executor='torch', site='torch:complex64', trainable=any(e[0] == 'ry' for e in ev),
                            in_dtype='complex64', ksuf='/complex64')
        out.sample = {'kind': 'circuit', 'mode': mode, 'n': n, 'program': ev}
    elif mode == 'seeded':
        g1 = case['g1']
        seeds_list = [(s, s + 100) for s in range(case['n_seed'])] + case['unseeded'] + [('shared', s) for s in range(case['n_shared'])]
        for ev in programs_two(n, g1, False):
            run_seeded_program(numqi, out, env, n, ev, inputs, seeds_list)
        out.sample = {'kind': 'circuit', 'mode': mode, 'n': n, 'program': ev, 'seeds': seeds_list}
    else:
        raise ValueError(mode)


# ----------------------------------------------------------------------------------------------- engine interface
def prepare(env):
    for n in range(1, 7):
        for S in all_subsets(n):
            k = outcome_index(n, S)
            # self-check of the projector-built table against plain bit extraction
            x = np.arange(2**n)
            alt = np.zeros(2**n, dtype=np.int64)
            for i, q in enumerate(S):
                alt += ((x >> (n - 1 - q)) & 1) << (len(S) - 1 - i)
            assert np.array_equal(k, alt)


def build_cases(tier, seed):
    quick = tier == 'quick'
    cases = []
    info = {}
    # ---- A: direct, all subsets
    n_direct = 6
    for n in range(1, n_direct + 1):
        for S in all_subsets(n):
            cases.append({'kind': 'direct', 'n': n, 'S': list(S)})
    info['direct'] = {'n': [1, n_direct], 'subsets': sum(2**n - 1 for n in range(1, n_direct + 1)), 'all_subsets': True,
                      'full_qubit_alphabet_products_up_to_n': full_product_bound(tier), 'generic_atoms': n_atoms(tier),
                      'integer_seeds_per_point': 4 if quick else 16}
    # ---- B: sequences of two different subsets, both orders
    n_seq = 4 if quick else 6
    for n in range(2, n_seq + 1):
        for S in all_subsets(n)[:-1]:
            cases.append({'kind': 'seq', 'n': n, 'A': list(S)})
    info['seq'] = {'n': [2, n_seq], 'unordered_pairs': sum((2**n - 1) * (2**n - 2) // 2 for n in range(2, n_seq + 1)), 'both_orders': True}
    # ---- C: circuits
    two = [(1, True), (2, True), (3, False)] if quick else [(1, True), (2, True), (3, True), (4, False)]
    for n, full2 in two:
        for g1 in gate_menu(n, True):
            cases.append({'kind': 'circuit', 'mode': 'two', 'n': n, 'g1': g1, 'full2': full2})
    info['circuit_two_measurements'] = [{'n': n, 'g1_menu': len(gate_menu(n, True)), 'g2_menu': len(gate_menu(n, f)), 'subset_pairs': (2**n - 1)**2} for n, f in two]
    for n in ([2] if quick else [2, 3]):
        for g1 in ([None, ['H', 0]] if n == 3 else gate_menu(n, True)):
            cases.append({'kind': 'circuit', 'mode': 'three', 'n': n, 'g1': g1})
    for n in [5, 6]:
        for S in all_subsets(n):
            cases.append({'kind': 'circuit', 'mode': 'one', 'n': n, 'S': list(S), 'torch': True})
    info['circuit_one_measurement'] = {'n': [5, 6], 'all_subsets': True, 'executors': ['apply_state', 'CircuitTorchWrapper']}
    shifts = [[1], [2], [1, -1], [2, -1]]
    for n in ([2] if quick else [2, 3]):
        for g1 in gate_menu(n, True):
            cases.append({'kind': 'circuit', 'mode': 'shift', 'n': n, 'g1': g1, 'shifts': shifts})
            cases.append({'kind': 'circuit', 'mode': 'torch', 'n': n, 'g1': g1, 'complex64': (not quick) or g1 in (None, ['ry', n - 1, n - 1])})
            small = g1 in gate_menu(n, False)  # quick tier: the new seed forms on the reduced g1 menu only
            cases.append({'kind': 'circuit', 'mode': 'seeded', 'n': n, 'g1': g1, 'n_seed': 2 if quick else 6, 'n_shared': (1 if small else 0) if quick else 3,
                          'unseeded': ([[None, 'omitted']] if small else []) if quick else [[None, 'omitted'], ['omitted', None]]})
        for g1 in gate_menu(n, (not quick) and n == 2):
            cases.append({'kind': 'circuit', 'mode': 'index_form', 'n': n, 'g1': g1})
    # composition: c1 = [front] + extend_circuit(c0) / append_gate, then c1.shift_qubit_index_(d); c1 is run (c0 afterwards: out of scope)
    for n in ([2] if quick else [2, 3]):
        fronts = [['X', 0]] if (quick or n == 3) else [['X', 0], ['H', n - 1], ['cnot', n - 1, 0]]  # n=3: thin slice
        for g1 in ([None, ['H', 0]] if n == 3 else gate_menu(n, not quick)):
            cases.append({'kind': 'circuit', 'mode': 'compose', 'n': n, 'g1': g1, 'fronts': fronts, 'shifts': [0, 1, 2]})
    info['compose'] = {'n': [2] if quick else [2, 3], 'front_gates': 1 if quick else {'n=2': 3, 'n=3': 1}, 'shifts': [0, 1, 2], 'via': ['extend_circuit', 'append_gate'],
                       'run': 'outer circuit only'}
    info['shifts'] = shifts
    info['argument_axes'] = {'index_forms': ['tuple'] + INDEX_FORMS, 'seed_forms': ['stub', 'int', 'None', 'omitted', 'shared np.random.Generator'],
                             'q0_layouts': ['contiguous', 'step2 view', 'column view'], 'q0_layout_states': 'one per class' if quick else 'all',
                             'torch': ['fixed gates', 'trainable ry', 'complex64 input']}
    info['exhaustive'] = True
    info['note'] = ('exhaustive within the stated bounds: all non-empty ascending subsets for n<=6 x the listed state alphabet x all outcomes of '
                    'non-zero probability; all unordered subset pairs in both orders; all programs of the stated shape')
    return cases, info


def run_case(case, out, env):
    import numqi
    kind = case['kind']
    if kind == 'direct':
        run_direct(numqi, out, env, case['n'], tuple(case['S']))
    elif kind == 'seq':
        run_seq(numqi, out, env, case['n'], tuple(case['A']))
    elif kind == 'circuit':
        run_circuit_case(numqi, out, env, case)
    else:
        raise ValueError(kind)
