"""C07 - Clifford tableau simulation equals unitary conjugation for any gate history.

Spaces (DESIGN.md section 4, C07):
  A  hist     : H-stateless. All interleavings of {append gate, query symplectic form, apply to a Pauli,
                export universal circuit} up to depth d on n_max qubits, executed on a fresh CliffordCircuit.
  B  closure  : H-closure. BFS over the Clifford group modulo phase (key computed by the *reference*: dense
                unitary mod phase); every state is rebuilt on the real object, queried cold, then every append
                event is applied to the warm object and queried again.
  A' hist/ext : the same over the extended alphabet (+ random_one/two_qubit_gate with every generator answer, + num_qubit).
  C  autom    : apply_clifford_on_pauli for all S in Sp(2n,F2) x all r x all phased Paulis: phase-exact automorphism.
     mult     : clifford_multiply == sequential application (+ 96 dense operands at n=2).
     arr2f2   : clifford_array_to_F2(U) reproduces U P U^dagger for every group element, in every input form.
     n3       : the three above on all products of <= 2 elementary gates on 3 qubits.
Oracle: dense conjugation with kron-built Paulis (mc.ref).
"""
import copy
import itertools

import numpy as np

from mc import ref

PROPERTY = 'C07'
GUARD = ['numqi.sim.clifford']  # argument-immutability oracle (mc.seams.ImmutabilityGuard)
GUARD_LAYOUT = ['numqi.sim.clifford.clifford_array_to_F2']  # memory-layout oracle for the unitary -> (r,S) conversion
LEVEL = 'model_checking'
RULE = ('state = event history on a real CliffordCircuit (append g on q / query / apply / export); stateless enumeration of all '
        'histories to the depth bound plus BFS closure of the Clifford group mod phase keyed by the reference unitary; '
        'transition = one implementation call compared with dense conjugation U^dagger P U for all phased Paulis, after which the returned arrays are overwritten in place (the caller owns them); '
        'non-trivial = distinct reference group elements / action tables that are not the identity. '
        'Extended alphabet (one level shallower): random_one_qubit_gate / random_two_qubit_gate with every answer of the generator passed as seed '
        '(mc.seams.StubGenerator; the recorded gate must be one elementary gate on the requested qubits, or nothing for the identity, and is then replayed by the reference) '
        'and num_qubit as a query; exported circuits are mutated after the comparison. '
        'Pure functions: all of Sp(2,F2), Sp(4,F2); clifford_multiply additionally with 96 dense two-qubit operands (24 local Cliffords x {1,CX,CX.CX^T,SWAP}) against every S; '
        'three qubits: the 600 products of <= 2 elementary gates for clifford_array_to_F2 / automorphism laws / clifford_multiply with the one-gate elements; '
        'clifford_array_to_F2 also on e^{i phi}U (phi generic, seed-dependent), real float64, Fortran-ordered and strided forms (same (r,S) required)')
ASSUMPTIONS = [
    'dense numpy conjugation with kron-built Pauli matrices is the reference semantics',
    'a query on a circuit without any gate is outside the domain (the qubit count is undefined)',
    'the random appends consume the generator given as seed (one integers() draw per call in the pinned tree); the gate they record is read from gate_index_list after it was checked to be admissible',
    'products compared on the generators X_k, Z_k, i*1 only (dense and 3-qubit multiply) rely on the automorphism law, which is checked for all of Sp(4,F2) x all r and for every 3-qubit factor used',
    'closure merging: futures depend on the history only through (group element, qubit count, cache flag) if the implementation is correct; the stateless pass covers history dependence up to its depth',
]
CHUNK = 1

ONE = ['X', 'Y', 'Z', 'H', 'S']
TWO = ['CX', 'CY', 'CZ']


def append_events(nq):
    ev = [(g, q) for q in range(nq) for g in ONE]
    ev += [(g, a, b) for a in range(nq) for b in range(nq) if a != b for g in TWO]
    return ev


def all_events(nq):
    # histories additionally use the identity gate (appends nothing) and the CNOT alias of CX
    extra = [('I', 0)] + ([('CNOT', 0, 1)] if nq >= 2 else [])
    return append_events(nq) + extra + [('sym',), ('apply',), ('univ',)]


# random_one_qubit_gate / random_two_qubit_gate draw ONE integer from the generator given as `seed` (pinned tree:
# np_rng.integers(0, 6) over [I,X,Y,Z,H,S], np_rng.integers(0, 3) over [CX,CY,CZ]); the harness answers every value
# through mc.seams.StubGenerator, so the "random" appends are enumerated like any other event.
N_R1 = 6
N_R2 = 3
RAND_FN = {'r1': 'random_one_qubit_gate', 'r2': 'random_two_qubit_gate'}


def rand_events(nq):
    ev = [('r1', q, a) for q in range(nq) for a in range(N_R1)]
    ev += [('r2', a, b, k) for a in range(nq) for b in range(nq) if a != b for k in range(N_R2)]
    return ev


def ext_events(nq):
    # extended alphabet: + the random appends (every generator answer) + reading num_qubit as a query event
    return all_events(nq) + rand_events(nq) + [('nq',)]


_TABLE_CACHE = {}


def ref_table(gates, n):
    """reference: index table i -> index of U^dagger P_i U for the history `gates` on n qubits"""
    key = (tuple(gates), n)
    if key not in _TABLE_CACHE:
        if len(_TABLE_CACHE) > 200000:
            _TABLE_CACHE.clear()
        U = ref.clifford_history_unitary(gates, n)
        _TABLE_CACHE[key] = (ref.conj_action_table(U, n, dagger_first=True), U)
    return _TABLE_CACHE[key]


def gates_nq(gates):
    return max(q for g in gates for q in g[1:]) + 1


def impl_action(numqi, r, S, n, which=None):
    f2 = ref.pauli_table(n)[0]
    idx = range(len(f2)) if which is None else which
    ret = {}
    for i in idx:
        v = numqi.sim.clifford.apply_clifford_on_pauli(f2[i], r, S)
        ret[i] = int(ref.f2_index(v)) if (v.shape == (2 * n + 2,) and v.max() <= 1) else -1
    return ret


def generator_indices(n):
    """indices (reference numbering) of X_k, Z_k and i*1: they generate the phased Pauli group"""
    f2 = ref.pauli_table(n)[0]
    out = []
    for k in range(n):
        for off in (2 + k, 2 + n + k):
            v = np.zeros(2 * n + 2, dtype=np.uint8)
            v[off] = 1
            out.append(int(ref.f2_index(v)))
    v = np.zeros(2 * n + 2, dtype=np.uint8)
    v[1] = 1
    out.append(int(ref.f2_index(v)))
    return out


def check_query(numqi, out, circ, gates, kind, hist, site, which=None):
    """issue one query on the real object and compare with the reference for the gates appended so far"""
    n = gates_nq(gates)
    table, U = ref_table(gates, n)
    out.trans()
    if kind == 'sym':
        r, S = circ.to_symplectic_form()
        if not (r.shape == (2 * n,) and S.shape == (2 * n, 2 * n)):
            out.violation('%s/to_symplectic_form/shape' % site, 'tableau has the wrong number of qubits: %s for %d qubits' % (S.shape, n), history=hist)
            return
        L = ref.symplectic_form(n)
        if not np.array_equal((S.astype(int).T @ L @ S.astype(int)) % 2, L) and not np.array_equal((S.astype(int) @ L @ S.astype(int).T) % 2, L):
            out.violation('%s/to_symplectic_form/not_symplectic' % site, 'returned S is not symplectic', history=hist)
        got = impl_action(numqi, r.copy(), S.copy(), n, which=which)
        # the caller owns what a query returns: overwrite it in place, so that every later query of the history shows
        # whether the object handed out its own cached tableau
        for a in (r, S):
            if a.flags.writeable:
                a[...] = 1
        bad = [i for i in got if got[i] != table[i]]
        if bad:
            f2 = ref.pauli_table(n)[0]
            out.violation('%s/to_symplectic_form/stale_or_wrong' % site,
                          'to_symplectic_form() after history %s does not act as U^dagger P U (first bad Pauli %s)' % (hist, f2[bad[0]].tolist()),
                          history=hist, n_bad=len(bad))
    elif kind == 'apply':
        f2 = ref.pauli_table(n)[0]
        bad = []
        for i in range(len(f2)):
            v = circ.apply_pauli_F2(f2[i].copy())
            if v.shape != (2 * n + 2,) or int(ref.f2_index(v)) != table[i]:
                bad.append(i)
            if v.flags.writeable:
                v[...] = 1
        if bad:
            out.violation('%s/apply_pauli_F2/stale_or_wrong' % site,
                          'apply_pauli_F2 after history %s differs from U^dagger P U for %d Paulis (first %s)' % (hist, len(bad), f2[bad[0]].tolist()),
                          history=hist, n_bad=len(bad))
    elif kind == 'univ':
        uc = circ.to_universal_circuit()
        M = uc.to_unitary()
        if M.shape != U.shape or np.abs(M - U).max() > 1e-10:
            out.violation('%s/to_universal_circuit/wrong_unitary' % site, 'exported circuit differs from the product of the appended gates', history=hist)
        # the caller owns the exported circuit too: overwrite the matrix and append a gate to the export, so that every
        # later export of the history shows whether the object handed out a circuit it keeps (the gate arrays themselves
        # are the numqi.gate constants and are not touched)
        if isinstance(M, np.ndarray) and M.flags.writeable:
            M[...] = 1
        uc.single_qubit_gate(numqi.gate.H, 0)
    elif kind == 'nq':
        v = circ.num_qubit
        if isinstance(v, bool) or not isinstance(v, (int, np.integer)) or int(v) != n:
            out.violation('%s/num_qubit/wrong' % site, 'num_qubit=%r after history %s, the gates appended so far touch %d qubits' % (v, hist, n), history=hist)
    out.trace()


def run_history(numqi, out, hist, site='hist'):
    """execute one history on a fresh object, checking after every query event"""
    answers = [ev[-1] for ev in hist if ev[0] in RAND_FN]
    if answers:
        from mc.seams import StubGenerator
        stub = StubGenerator(answers)
        circ = numqi.sim.CliffordCircuit(seed=stub)
    else:
        circ = numqi.sim.CliffordCircuit()
    gates = []
    n_query = 0
    for ev in hist:
        if len(ev) == 1:
            if not gates:
                out.count('query_on_empty_skipped')
                continue
            check_query(numqi, out, circ, gates, ev[0], hist, site)
            n_query += 1
        elif ev[0] in RAND_FN:
            fn = RAND_FN[ev[0]]
            qs = tuple(ev[1:-1])
            n_before = len(circ.gate_index_list)
            n_ans = len(stub.answers)
            getattr(circ, fn)(*qs)
            out.trans()
            out.count('rand_draws_from_seed_%d' % (n_ans - len(stub.answers)))
            if stub.log and tuple(stub.log[-1][:3]) != ('integers', 0, N_R1 if ev[0] == 'r1' else N_R2):
                out.count('rand_range_unexpected')
            new = [tuple(g) for g in circ.gate_index_list[n_before:]]
            # admissible: exactly one elementary Clifford gate of the right arity on the requested qubits (which of the two
            # is the control is not specified), or - one-qubit only - nothing (the identity). The reference then replays
            # the gate the object recorded.
            names = ONE if ev[0] == 'r1' else TWO
            ok = (len(new) == 1 and len(new[0]) == len(qs) + 1 and new[0][0] in names and sorted(int(x) for x in new[0][1:]) == sorted(qs)) or (len(new) == 0 and ev[0] == 'r1')
            if len(circ.gate_index_list) < n_before or [tuple(g) for g in circ.gate_index_list[:n_before]] != [tuple(g) for g in gates]:
                ok = False
            if not ok:
                out.violation('%s/%s/inadmissible_gate' % (site, fn), '%s%s recorded %s: not one of %s on the requested qubits' % (fn, qs, new, names), history=hist)
                break
            out.count('rand_gate/%s' % (new[0][0] if new else 'I'))
            gates += new
        else:
            getattr(circ, ev[0])(*ev[1:])
            if ev[0] == 'CNOT':
                gates.append(('CX',) + tuple(ev[1:]))
            elif ev[0] != 'I':
                gates.append(tuple(ev))
            out.trans()
    out.state()
    if gates:
        out.outcome((ref_table(gates, gates_nq(gates))[0].tobytes(), n_query), nontrivial=n_query > 0 and len(gates) > 0, )
    return n_query


# ------------------------------------------------------------------ closure by the reference model
_CLOSURE = {}


def closure_states(n, max_depth=None):
    """BFS over the group generated by the append events on n qubits. Key (computed by the reference model only):
    (qubit count the object must report, dense unitary modulo phase). Returns the shortest history per key."""
    ck = (n, max_depth)
    if ck in _CLOSURE:
        return _CLOSURE[ck]
    evs = append_events(n)
    mats = [ref.embed(ref.CLIFFORD_GATES[e[0]], list(e[1:]), n) for e in evs]
    seen = {}
    states = []
    level = []
    for e, m in zip(evs, mats):
        k = (gates_nq([e]), ref.canon_mod_phase(m))
        if k not in seen:
            seen[k] = (e,)
            states.append((e,))
            level.append(((e,), m))
    depth = 1
    while level and (max_depth is None or depth < max_depth):
        nxt = []
        for h, U in level:
            nq = gates_nq(h)
            for e, m in zip(evs, mats):
                V = m @ U
                k = (max(nq, gates_nq([e])), ref.canon_mod_phase(V))
                if k not in seen:
                    seen[k] = h + (e,)
                    states.append(h + (e,))
                    nxt.append((h + (e,), V))
        level = nxt
        depth += 1
    _CLOSURE[ck] = states
    return states


def check_forms(numqi, out, env, U, r, S_, h):
    """clifford_array_to_F2 on other admissible forms of the same Clifford: a generic global phase (U -> e^{i phi} U has the
    same conjugation action), the real float64 array if U is real, Fortran order, strided views. Oracle: the same (r,S)."""
    phi = float(env.rng('C07', 'global_phase').uniform(0.1, 6.2))
    d = U.shape[0]
    forms = [('phase', U * np.exp(1j * phi)), ('fortran', np.asfortranarray(U))]
    big = np.zeros((2 * d, 3 * d), dtype=U.dtype)
    big[::2, 1::3] = U
    forms.append(('strided', big[::2, 1::3]))
    forms.append(('negative_strides', np.ascontiguousarray(U[::-1, ::-1])[::-1, ::-1]))
    if np.abs(U.imag).max() == 0:
        forms.append(('real', np.ascontiguousarray(U.real)))
        out.count('arr2f2_real_inputs')
    for name, V in forms:
        out.trans()
        try:
            r2, S2 = numqi.sim.clifford.clifford_array_to_F2(V)
        except Exception as e:
            out.violation('arr2f2/clifford_array_to_F2/form_%s/%s' % (name, type(e).__name__), 'conversion raised %r for the %s form of a Clifford unitary' % (e, name), history=list(h), phi=phi)
            continue
        if not (np.array_equal(r2, r) and np.array_equal(S2, S_)):
            out.violation('arr2f2/clifford_array_to_F2/form_%s' % name, '(r,S) depends on the %s form of the same Clifford' % name, history=list(h), phi=phi)


_DENSE = []


def dense_operands(numqi):
    """96 two-qubit Cliffords with dense tableaux: (c_i on qubit 0) x (c_j(i) on qubit 1) for the 24 one-qubit Cliffords c_i,
    followed by one of {1, CX01, CX01.CX10, SWAP}; (r,S) from clifford_array_to_F2 (compared with the reference in kind arr2f2)"""
    if not _DENSE:
        loc = [ref.clifford_history_unitary(list(h), 1) for h in closure_states(1)]
        assert len(loc) == 24
        cx01 = ref.embed(ref.CLIFFORD_GATES['CX'], [0, 1], 2)
        cx10 = ref.embed(ref.CLIFFORD_GATES['CX'], [1, 0], 2)
        ent = [np.eye(4), cx01, cx01 @ cx10, cx01 @ cx10 @ cx01]
        for i, c in enumerate(loc):
            for E in ent:
                U = E @ np.kron(c, loc[(5 * i + 7) % 24])
                _DENSE.append(numqi.sim.clifford.clifford_array_to_F2(U))
    return _DENSE


def prepare(env):
    ref.pauli_table(1)
    ref.pauli_table(2)
    ref.pauli_mul_table(1)
    ref.pauli_mul_table(2)
    ref.all_symplectic(1)
    ref.all_symplectic(2)
    ref.pauli_table(3)
    ref.pauli_mul_table(3)


def build_cases(tier, seed):
    cases = []
    info = {}
    # ---- A: stateless histories
    if tier == 'quick':
        hist_cfg = [(1, 5), (2, 4)]
    else:
        hist_cfg = [(1, 6), (2, 5), (3, 4)]
    info['history_bounds'] = [{'n_max': a, 'depth': b, 'events': len(all_events(a))} for a, b in hist_cfg]
    for nq, depth in hist_cfg:
        evs = all_events(nq)
        pl = min(2, depth)
        for prefix in itertools.product(range(len(evs)), repeat=pl):
            cases.append({'kind': 'hist', 'nq': nq, 'depth': depth, 'prefix': list(prefix)})
    # ---- A': the same histories over the extended alphabet (random appends with every generator answer, num_qubit as a
    # query), one level shallower; only histories that contain at least one of the new events are executed
    ext_cfg = [(1, 4), (2, 3)] if tier == 'quick' else [(1, 4), (2, 4), (3, 3)]
    info['history_bounds_extended_alphabet'] = [{'n_max': a, 'depth': b, 'events': len(ext_events(a))} for a, b in ext_cfg]
    for nq, depth in ext_cfg:
        evs = ext_events(nq)
        pl = 1 if depth <= 3 else 2
        for prefix in itertools.product(range(len(evs)), repeat=pl):
            cases.append({'kind': 'hist', 'nq': nq, 'depth': depth, 'prefix': list(prefix), 'alpha': 'ext'})
    # quick only (the thorough tier contains these in the depth-4 extended histories): the shortest histories in which a
    # stale cache can show after a new event, [append a, query q, append-or-random b, query q'] with b random or q/q' = num_qubit
    if tier == 'quick':
        for nq in (1, 2):
            for ai in range(len(append_events(nq))):
                cases.append({'kind': 'histw', 'nq': nq, 'a': ai})
    # ---- B: closure
    clos = [(1, None), (2, None)] if tier == 'thorough' else [(1, None), (2, None)]
    info['closure'] = []
    for n, md in clos:
        states = closure_states(n, md)
        info['closure'].append({'n': n, 'max_depth': md, 'states': len(states)})
        step = 48
        for a in range(0, len(states), step):
            cases.append({'kind': 'closure', 'n': n, 'max_depth': md, 'lo': a, 'hi': min(a + step, len(states))})
    # ---- C: pure functions
    for n in (1, 2):
        nS = len(ref.all_symplectic(n))
        step = 4 if tier == 'quick' else 2
        for a in range(0, nS, step):
            cases.append({'kind': 'autom', 'n': n, 'lo': a, 'hi': min(a + step, nS), 'allQ': tier == 'thorough'})
    cases.append({'kind': 'mult', 'n': 1})
    nS = len(ref.all_symplectic(2))
    for a in range(0, nS, 24):
        cases.append({'kind': 'mult', 'n': 2, 'lo': a, 'hi': min(a + 24, nS)})
    # dense second operand: 24 local Cliffords x {1, CX, CX.CX^T, SWAP} (96 elements with dense S and r) against every
    # S of Sp(4,F2) as the other operand (phase vectors / subset of the 96 cycling with S, see run_case)
    for a in range(0, nS, 24):
        cases.append({'kind': 'mult', 'n': 2, 'lo': a, 'hi': min(a + 24, nS), 'dense': True, 'all_r': tier == 'thorough'})
    info['mult_dense_operands'] = 96
    for n, md in clos:
        states = closure_states(n, md)
        for a in range(0, len(states), 96):
            cases.append({'kind': 'arr2f2', 'n': n, 'max_depth': md, 'lo': a, 'hi': min(a + 96, len(states))})
    # ---- three qubits: arr2f2 / autom / mult on every product of <= 2 elementary gates
    st3 = closure_states(3, 2)
    info['n3_elements'] = len(st3)
    for a in range(0, len(st3), 25):
        cases.append({'kind': 'n3', 'lo': a, 'hi': min(a + 25, len(st3)), 'both': tier == 'thorough'})
    info['exhaustive'] = True
    info['note'] = 'exhaustive within the stated bounds: all histories to the depth bound; full closure of the 1- and 2-qubit groups; all of Sp(2,F2), Sp(4,F2) x all phase vectors; the random appends for every generator answer; 96 dense multiply operands x every S (phase vectors cycling); the 600 three-qubit products of <= 2 gates'
    return cases, info


def run_case(case, out, env):
    import numqi
    kind = case['kind']
    if kind == 'hist':
        ext = case.get('alpha') == 'ext'
        evs = ext_events(case['nq']) if ext else all_events(case['nq'])
        base = set(all_events(case['nq']))
        prefix = [evs[i] for i in case['prefix']]
        rest = case['depth'] - len(prefix)
        # all histories of length len(prefix)..depth that start with this prefix
        nq_tot = 0
        # every history of length < depth, or ending in an append, is a prefix of a history of length == depth that
        # ends in a query, and queries are checked at every position: so exactly those are executed.
        for tail in itertools.product(evs, repeat=rest):
            hist = [tuple(e) for e in prefix] + [tuple(e) for e in tail]
            if len(hist[-1]) != 1:
                continue
            if ext and all(e in base for e in hist):
                continue  # executed by the base-alphabet cases
            nq_tot += run_history(numqi, out, hist)
        if out.sample is None:
            out.sample = {'kind': 'hist', 'example_history': [list(e) for e in prefix] + [['sym']]}
    elif kind == 'histw':
        aev = append_events(case['nq'])
        qs = [('sym',), ('apply',), ('univ',), ('nq',)]
        rnd = set(rand_events(case['nq']))
        for q1 in qs:
            for b in aev + rand_events(case['nq']):
                for q2 in qs:
                    if b in rnd or ('nq',) in (q1, q2):
                        run_history(numqi, out, [tuple(aev[case['a']]), q1, tuple(b), q2])
        out.sample = {'kind': 'histw', 'example_history': [list(aev[case['a']]), ['sym'], ['r1', 0, 4], ['sym']]}
    elif kind == 'closure':
        n = case['n']
        states = closure_states(n, case['max_depth'])
        evs = append_events(n)
        gen = generator_indices(n)
        for h in states[case['lo']:case['hi']]:
            gates = list(h)
            if gates_nq(gates) != n:
                # fewer qubits touched so far: the object reports a smaller qubit count; still a legal state
                pass
            circ = numqi.sim.CliffordCircuit()
            for e in gates:
                getattr(circ, e[0])(*e[1:])
            out.state()
            table = ref_table(gates, gates_nq(gates))[0]
            out.outcome((gates_nq(gates), table.tobytes()), nontrivial=True)
            check_query(numqi, out, circ, gates, 'apply', list(h), 'closure')
            for e in evs:
                # transition on the *warm* object (cache filled by the query above)
                # (the generators X_k, Z_k, i*1 determine the action because every (r,S) acts as an automorphism: kind autom)
                c2 = copy.deepcopy(circ)
                getattr(c2, e[0])(*e[1:])
                check_query(numqi, out, c2, gates + [e], 'sym', list(h) + [('apply',), e, ('sym',)], 'closure_warm', which=generator_indices(gates_nq(gates + [e])))
        out.sample = {'kind': 'closure', 'n': n, 'state_history': [list(e) for e in states[case['lo']]]}
    elif kind == 'autom':
        n = case['n']
        apply = numqi.sim.clifford.apply_clifford_on_pauli
        Sall = ref.all_symplectic(n)
        f2 = ref.pauli_table(n)[0]
        MUL = ref.pauli_mul_table(n)
        N = len(f2)
        gen = generator_indices(n)
        Q = list(range(N)) if case['allQ'] else gen
        for si in range(case['lo'], case['hi']):
            Smat = Sall[si]
            for rbits in itertools.product([0, 1], repeat=2 * n):
                r = np.array(rbits, dtype=np.uint8)
                out.state()
                img = np.zeros(N, dtype=np.int64)
                ok = True
                for i in range(N):
                    v = apply(f2[i].copy(), r.copy(), Smat.copy())
                    out.trans()
                    if v.shape != (2 * n + 2,) or v.dtype != np.uint8 or v.max() > 1:
                        out.violation('autom/apply_clifford_on_pauli/not_a_pauli', 'result is not a binary Pauli vector', S=Smat, r=r, P=f2[i])
                        ok = False
                        break
                    img[i] = ref.f2_index(v)
                if not ok:
                    continue
                out.outcome(img.tobytes(), nontrivial=not np.array_equal(img, np.arange(N)))
                # bijection, phase-exact homomorphism f(PQ) = f(P) f(Q), symplectic part == S
                if len(set(img.tolist())) != N:
                    out.violation('autom/apply_clifford_on_pauli/not_bijective', 'action is not a bijection of the Pauli group', S=Smat, r=r)
                lhs = img[MUL[:, Q]]
                rhs = MUL[img[:, None], img[Q][None, :]]
                if not np.array_equal(lhs, rhs):
                    a, b = np.argwhere(lhs != rhs)[0]
                    out.violation('autom/apply_clifford_on_pauli/not_homomorphism',
                                  'f(PQ) != f(P)f(Q) including the phase', S=Smat, r=r, P=f2[a], Q=f2[Q[b]])
                xz = f2[:, 2:]
                exp_xz = (xz.astype(int) @ Smat.astype(int).T) % 2
                got_xz = f2[img][:, 2:]
                if not np.array_equal(exp_xz, got_xz):
                    out.violation('autom/apply_clifford_on_pauli/xz_part', 'X/Z part of the image is not S.(x,z)', S=Smat, r=r)
                out.trace()
        out.sample = {'kind': 'autom', 'n': n, 'S': Sall[case['lo']].tolist()}
    elif kind == 'mult':
        n = case['n']
        apply = numqi.sim.clifford.apply_clifford_on_pauli
        mult = numqi.sim.clifford.clifford_multiply
        Sall = ref.all_symplectic(n)
        f2 = ref.pauli_table(n)[0]
        N = len(f2)
        gen = generator_indices(n)

        def action(r, S_):
            return np.array([ref.f2_index(apply(f2[i].copy(), r, S_)) for i in range(N)], dtype=np.int64)
        rs = [np.array(b, dtype=np.uint8) for b in itertools.product([0, 1], repeat=2 * n)]
        if n == 1:
            elems = [(r, S_) for S_ in Sall for r in rs]
            pairs = [(x, y) for x in elems for y in elems]
        elif case.get('dense'):
            ys = dense_operands(numqi)
            # budget (a guarded call costs ~0.3 ms): quick = every S with one phase vector and 24 of the 96 dense elements
            # (both cycling with the index of S, so every r and every dense element meets 45 / 180 different S);
            # thorough = every S with four phase vectors (cycling) and all 96. rx enters the product only additively.
            pairs = []
            for si in range(case['lo'], case['hi']):
                ysel = ys if case['all_r'] else ys[(si % 4)::4]
                for k in range(4 if case['all_r'] else 1):
                    x = (rs[(si + 4 * k) % len(rs)], Sall[si])
                    # the dense element is the second operand for every x and the first operand for every fourth S
                    pairs += [(x, y) for y in ysel]
                    if si % 4 == k:
                        pairs += [(y, x) for y in ysel]
        else:
            # every group element x times every generator element y (the elementary gates' tableaux), all r for x in {0, e1, 1..1}
            gens = []
            for e in append_events(2):
                U = ref.embed(ref.CLIFFORD_GATES[e[0]], list(e[1:]), 2)
                gens.append(numqi.sim.clifford.clifford_array_to_F2(U))
            rsel = [rs[0], rs[1], rs[-1], rs[6]]
            pairs = [((r, Sall[si]), y) for si in range(case['lo'], case['hi']) for r in rsel for y in gens]
            pairs += [(y, (r, Sall[si])) for si in range(case['lo'], case['hi']) for r in rsel[:2] for y in gens[:6]]
        gens_only = bool(case.get('dense'))
        Lf = ref.symplectic_form(n).astype(int)
        acache = {}

        def caction(r, S_):
            k = (r.tobytes(), S_.tobytes())
            if k not in acache:
                acache[k] = action(r, S_)
            return acache[k]
        for (rx, Sx), (ry, Sy) in pairs:
            out.state()
            out.trans()
            try:
                rz, Sz = mult(rx.copy(), Sx.copy(), ry.copy(), Sy.copy())
            except AssertionError as e:
                out.violation('mult/clifford_multiply/assert', 'clifford_multiply raised on valid tableaux: %r' % (e,), rx=rx, Sx=Sx, ry=ry, Sy=Sy)
                continue
            ax = caction(rx, Sx)
            ay = caction(ry, Sy)
            if gens_only:
                # (rz,Sz) with Sz symplectic acts as an automorphism (kind autom: all of Sp(4,F2) x all r) and so does
                # y o x: they are equal iff they agree on the generators X_k, Z_k, i*1 of the phased Pauli group
                Si = np.asarray(Sz).astype(int)
                okz = (isinstance(rz, np.ndarray) and rz.shape == (2 * n,) and rz.dtype == np.uint8 and rz.max() <= 1 and Si.shape == (2 * n, 2 * n)
                       and np.asarray(Sz).dtype == np.uint8 and np.array_equal((Si @ Lf @ Si.T) % 2, Lf))
                if not okz:
                    out.violation('mult_dense/clifford_multiply/not_a_tableau', 'product is not a binary (r,S) with S symplectic', rx=rx, Sx=Sx, ry=ry, Sy=Sy)
                    continue
                azg = np.array([ref.f2_index(apply(f2[i].copy(), rz, Sz)) for i in gen], dtype=np.int64)
                if not np.array_equal(azg, ay[ax[gen]]):
                    out.violation('mult_dense/clifford_multiply/not_sequential', 'clifford_multiply(x,y) does not act as y(x(P)) on the generators', rx=rx, Sx=Sx, ry=ry, Sy=Sy)
                out.outcome(azg.tobytes(), nontrivial=not np.array_equal(azg, np.array(gen)))
                out.trace()
                continue
            az = action(rz, Sz)
            # documented: z = y o x  (x applied first)
            if not np.array_equal(az, ay[ax]):
                out.violation('mult/clifford_multiply/not_sequential', 'clifford_multiply(x,y) does not act as y(x(P))', rx=rx, Sx=Sx, ry=ry, Sy=Sy)
            out.outcome(az.tobytes(), nontrivial=not np.array_equal(az, np.arange(N)))
            out.trace()
        out.sample = {'kind': 'mult', 'n': n, 'pairs': len(pairs)}
    elif kind == 'arr2f2':
        n = case['n']
        states = closure_states(n, case['max_depth'])
        apply = numqi.sim.clifford.apply_clifford_on_pauli
        f2 = ref.pauli_table(n)[0]
        N = len(f2)
        for h in states[case['lo']:case['hi']]:
            U = ref.clifford_history_unitary(list(h), n)
            out.state()
            out.trans()
            try:
                r, S_ = numqi.sim.clifford.clifford_array_to_F2(U.copy())
            except Exception as e:
                out.violation('arr2f2/clifford_array_to_F2/%s' % type(e).__name__, 'conversion of a Clifford unitary raised %r' % (e,), history=list(h))
                continue
            table = ref.conj_action_table(U, n, dagger_first=False)
            got = np.array([ref.f2_index(apply(f2[i].copy(), r, S_)) for i in range(N)])
            if not np.array_equal(got, table):
                out.violation('arr2f2/clifford_array_to_F2/wrong_action', '(r,S) from the unitary does not reproduce U P U^dagger', history=list(h))
            check_forms(numqi, out, env, U, r, S_, h)
            out.outcome(table.tobytes(), nontrivial=not np.array_equal(table, np.arange(N)))
            out.trace()
        out.sample = {'kind': 'arr2f2', 'n': n, 'history': [list(e) for e in states[case['lo']]]}
    elif kind == 'n3':
        # three qubits: every product of <= 2 elementary gates on 3 qubits (mod phase, 600 elements; the reshape
        # (2^n, 2^i, 2, 2^(n-i-1)) of clifford_array_to_F2 is non-trivial on both sides only for the middle qubit).
        # Per element x: clifford_array_to_F2 against the reference action, the automorphism laws for (r,S) and one more
        # phase vector, clifford_multiply with the one-gate elements y in both orders.
        n = 3
        apply = numqi.sim.clifford.apply_clifford_on_pauli
        mult = numqi.sim.clifford.clifford_multiply
        states = closure_states(3, 2)
        f2 = ref.pauli_table(n)[0]
        MUL = ref.pauli_mul_table(n)
        N = len(f2)
        gen = generator_indices(n)
        Lf = ref.symplectic_form(n).astype(int)
        yidx = [i for i, h in enumerate(states) if len(h) == 1]
        ytab = {}
        yact = {}

        def is_tableau(r, S_):
            if not (isinstance(r, np.ndarray) and isinstance(S_, np.ndarray) and r.shape == (2 * n,) and S_.shape == (2 * n, 2 * n)):
                return False
            Si = S_.astype(int)
            return r.dtype == np.uint8 and S_.dtype == np.uint8 and r.max() <= 1 and S_.max() <= 1 and np.array_equal((Si @ Lf @ Si.T) % 2, Lf)

        def y_of(yi):
            if yi not in ytab:
                ytab[yi] = numqi.sim.clifford.clifford_array_to_F2(ref.clifford_history_unitary(list(states[yi]), n))
            return ytab[yi]

        def y_img(yi, i):
            if (yi, i) not in yact:
                yact[(yi, i)] = int(ref.f2_index(apply(f2[i].copy(), *y_of(yi))))
            return yact[(yi, i)]
        for hi in range(case['lo'], case['hi']):
            h = states[hi]
            U = ref.clifford_history_unitary(list(h), n)
            out.state()
            out.trans()
            try:
                r, S_ = numqi.sim.clifford.clifford_array_to_F2(U.copy())
            except Exception as e:
                out.violation('arr2f2/clifford_array_to_F2/%s' % type(e).__name__, 'conversion of a Clifford unitary raised %r' % (e,), history=list(h), n=n)
                continue
            if not is_tableau(r, S_):
                out.violation('arr2f2/clifford_array_to_F2/not_a_tableau', 'result is not a binary (r,S) with S symplectic', history=list(h), n=n)
                continue
            table = ref.conj_action_table(U, n, dagger_first=False)
            img = np.array([ref.f2_index(apply(f2[i].copy(), r, S_)) for i in range(N)], dtype=np.int64)
            out.trans(N)
            if not np.array_equal(img, table):
                out.violation('arr2f2/clifford_array_to_F2/wrong_action', '(r,S) from the unitary does not reproduce U P U^dagger', history=list(h), n=n)
            check_forms(numqi, out, env, U, r, S_, h)
            out.outcome(table.tobytes(), nontrivial=not np.array_equal(table, np.arange(N)))
            # automorphism laws at n=3 for (r,S) and (r xor m, S), m a non-zero mask that cycles with the element
            m = ((hi * 37 + 21) % 63) + 1
            mask = np.array([(m >> k) & 1 for k in range(2 * n)], dtype=np.uint8)
            for rv in ((r, r ^ mask) if (case['both'] or hi % 4 == 0) else (r,)):  # quick: second phase vector for every 4th element
                iv = img if rv is r else np.array([ref.f2_index(apply(f2[i].copy(), rv, S_)) for i in range(N)], dtype=np.int64)
                if len(set(iv.tolist())) != N:
                    out.violation('autom/apply_clifford_on_pauli/not_bijective', 'action is not a bijection of the Pauli group', S=S_, r=rv)
                if not np.array_equal(iv[MUL[:, gen]], MUL[iv[:, None], iv[gen][None, :]]):
                    a, b = np.argwhere(iv[MUL[:, gen]] != MUL[iv[:, None], iv[gen][None, :]])[0]
                    out.violation('autom/apply_clifford_on_pauli/not_homomorphism', 'f(PQ) != f(P)f(Q) including the phase', S=S_, r=rv, P=f2[a], Q=f2[gen[b]])
                if not np.array_equal((f2[:, 2:].astype(int) @ S_.astype(int).T) % 2, f2[iv][:, 2:]):
                    out.violation('autom/apply_clifford_on_pauli/xz_part', 'X/Z part of the image is not S.(x,z)', S=S_, r=rv)
                out.outcome(iv.tobytes(), nontrivial=not np.array_equal(iv, np.arange(N)))
                out.trace()
            # composition with the one-gate elements: z = y o x (both tiers), z = x o y (thorough). z and both factors act
            # as automorphisms (checked above for x and y, S_z symplectic), so agreement on the generators decides equality
            ysel = yidx if case['both'] else yidx[(hi % 3)::3]
            for yi in ysel:
                ry, Sy = y_of(yi)
                for order in ((0, 1) if case['both'] else (0,)):
                    out.trans()
                    try:
                        rz, Sz = mult(r.copy(), S_.copy(), ry.copy(), Sy.copy()) if order == 0 else mult(ry.copy(), Sy.copy(), r.copy(), S_.copy())
                    except AssertionError as e:
                        out.violation('mult/clifford_multiply/assert', 'clifford_multiply raised on valid tableaux: %r' % (e,), x=list(h), y=list(states[yi]), order=order)
                        continue
                    if not is_tableau(rz, Sz):
                        out.violation('mult_n3/clifford_multiply/not_a_tableau', 'product is not a binary (r,S) with S symplectic', x=list(h), y=list(states[yi]), order=order)
                        continue
                    azg = [int(ref.f2_index(apply(f2[g].copy(), rz, Sz))) for g in gen]
                    exp = [y_img(yi, int(img[g])) for g in gen] if order == 0 else [int(img[y_img(yi, g)]) for g in gen]
                    if azg != exp:
                        out.violation('mult_n3/clifford_multiply/not_sequential', 'clifford_multiply(x,y) does not act as y(x(P)) on the generators', x=list(h), y=list(states[yi]), order=order)
                    out.outcome(tuple(azg), nontrivial=azg != gen)
                    out.trace()
        out.sample = {'kind': 'n3', 'history': [list(e) for e in states[case['lo']]]}
    else:
        raise ValueError(kind)
