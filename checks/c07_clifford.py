"""C07 - Clifford tableau simulation equals unitary conjugation for any gate history.

Spaces (DESIGN.md section 4, C07):
  A  hist     : H-stateless. All interleavings of {append gate, query symplectic form, apply to a Pauli,
                export universal circuit} up to depth d on n_max qubits, executed on a fresh CliffordCircuit.
  B  closure  : H-closure. BFS over the Clifford group modulo phase (key computed by the *reference*: dense
                unitary mod phase); every state is rebuilt on the real object, queried cold, then every append
                event is applied to the warm object and queried again.
  C  autom    : apply_clifford_on_pauli for all S in Sp(2n,F2) x all r x all phased Paulis: phase-exact automorphism.
     mult     : clifford_multiply == sequential application.
     arr2f2   : clifford_array_to_F2(U) reproduces U P U^dagger for every group element.
Oracle: dense conjugation with kron-built Paulis (mc.ref).
"""
import copy
import itertools

import numpy as np

from mc import ref

PROPERTY = 'C07'
GUARD = ['numqi.sim.clifford']  # argument-immutability oracle (mc.seams.ImmutabilityGuard)
LEVEL = 'model_checking'
RULE = ('state = event history on a real CliffordCircuit (append g on q / query / apply / export); stateless enumeration of all '
        'histories to the depth bound plus BFS closure of the Clifford group mod phase keyed by the reference unitary; '
        'transition = one implementation call compared with dense conjugation U^dagger P U for all phased Paulis, after which the returned arrays are overwritten in place (the caller owns them); '
        'non-trivial = distinct reference group elements / action tables that are not the identity')
ASSUMPTIONS = [
    'dense numpy conjugation with kron-built Pauli matrices is the reference semantics',
    'a query on a circuit without any gate is outside the domain (the qubit count is undefined)',
    'closure merging: futures depend on the history only through (group element, qubit count, cache flag) if the implementation is correct; the stateless pass covers history dependence up to its depth',
]
CHUNK = 1

ONE = ['X', 'Y', 'Z', 'H', 'S']
TWO = ['CX', 'CY', 'CZ']


def append_events(nq):
    ev = [(g, q) for q in range(nq) for g in ONE]
    ev += [(g, a, b) for a in range(nq) for b in range(nq) if a != b for g in TWO]
    return ev


def all_events(nq):
    # histories additionally use the identity gate (appends nothing) and the CNOT alias of CX
    extra = [('I', 0)] + ([('CNOT', 0, 1)] if nq >= 2 else [])
    return append_events(nq) + extra + [('sym',), ('apply',), ('univ',)]


_TABLE_CACHE = {}


def ref_table(gates, n):
    """reference: index table i -> index of U^dagger P_i U for the history `gates` on n qubits"""
    key = (tuple(gates), n)
    if key not in _TABLE_CACHE:
        if len(_TABLE_CACHE) > 200000:
            _TABLE_CACHE.clear()
        U = ref.clifford_history_unitary(gates, n)
        _TABLE_CACHE[key] = (ref.conj_action_table(U, n, dagger_first=True), U)
    return _TABLE_CACHE[key]


def gates_nq(gates):
    return max(q for g in gates for q in g[1:]) + 1


def impl_action(numqi, r, S, n, which=None):
    f2 = ref.pauli_table(n)[0]
    idx = range(len(f2)) if which is None else which
    ret = {}
    for i in idx:
        v = numqi.sim.clifford.apply_clifford_on_pauli(f2[i], r, S)
        ret[i] = int(ref.f2_index(v)) if (v.shape == (2 * n + 2,) and v.max() <= 1) else -1
    return ret


def generator_indices(n):
    """indices (reference numbering) of X_k, Z_k and i*1: they generate the phased Pauli group"""
    f2 = ref.pauli_table(n)[0]
    out = []
    for k in range(n):
        for off in (2 + k, 2 + n + k):
            v = np.zeros(2 * n + 2, dtype=np.uint8)
            v[off] = 1
            out.append(int(ref.f2_index(v)))
    v = np.zeros(2 * n + 2, dtype=np.uint8)
    v[1] = 1
    out.append(int(ref.f2_index(v)))
    return out


def check_query(numqi, out, circ, gates, kind, hist, site, which=None):
    """issue one query on the real object and compare with the reference for the gates appended so far"""
    n = gates_nq(gates)
    table, U = ref_table(gates, n)
    out.trans()
    if kind == 'sym':
        r, S = circ.to_symplectic_form()
        if not (r.shape == (2 * n,) and S.shape == (2 * n, 2 * n)):
            out.violation('%s/to_symplectic_form/shape' % site, 'tableau has the wrong number of qubits: %s for %d qubits' % (S.shape, n), history=hist)
            return
        L = ref.symplectic_form(n)
        if not np.array_equal((S.astype(int).T @ L @ S.astype(int)) % 2, L) and not np.array_equal((S.astype(int) @ L @ S.astype(int).T) % 2, L):
            out.violation('%s/to_symplectic_form/not_symplectic' % site, 'returned S is not symplectic', history=hist)
        got = impl_action(numqi, r.copy(), S.copy(), n, which=which)
        # the caller owns what a query returns: overwrite it in place, so that every later query of the history shows
        # whether the object handed out its own cached tableau
        for a in (r, S):
            if a.flags.writeable:
                a[...] = 1
        bad = [i for i in got if got[i] != table[i]]
        if bad:
            f2 = ref.pauli_table(n)[0]
            out.violation('%s/to_symplectic_form/stale_or_wrong' % site,
                          'to_symplectic_form() after history %s does not act as U^dagger P U (first bad Pauli %s)' % (hist, f2[bad[0]].tolist()),
                          history=hist, n_bad=len(bad))
    elif kind == 'apply':
        f2 = ref.pauli_table(n)[0]
        bad = []
        for i in range(len(f2)):
            v = circ.apply_pauli_F2(f2[i].copy())
            if v.shape != (2 * n + 2,) or int(ref.f2_index(v)) != table[i]:
                bad.append(i)
            if v.flags.writeable:
                v[...] = 1
        if bad:
            out.violation('%s/apply_pauli_F2/stale_or_wrong' % site,
                          'apply_pauli_F2 after history %s differs from U^dagger P U for %d Paulis (first %s)' % (hist, len(bad), f2[bad[0]].tolist()),
                          history=hist, n_bad=len(bad))
    elif kind == 'univ':
        uc = circ.to_universal_circuit()
        M = uc.to_unitary()
        if M.shape != U.shape or np.abs(M - U).max() > 1e-10:
            out.violation('%s/to_universal_circuit/wrong_unitary' % site, 'exported circuit differs from the product of the appended gates', history=hist)
    out.trace()


def run_history(numqi, out, hist, site='hist'):
    """execute one history on a fresh object, checking after every query event"""
    circ = numqi.sim.CliffordCircuit()
    gates = []
    n_query = 0
    for ev in hist:
        if len(ev) == 1:
            if not gates:
                out.count('query_on_empty_skipped')
                continue
            check_query(numqi, out, circ, gates, ev[0], hist, site)
            n_query += 1
        else:
            getattr(circ, ev[0])(*ev[1:])
            if ev[0] == 'CNOT':
                gates.append(('CX',) + tuple(ev[1:]))
            elif ev[0] != 'I':
                gates.append(tuple(ev))
            out.trans()
    out.state()
    if gates:
        out.outcome((ref_table(gates, gates_nq(gates))[0].tobytes(), n_query), nontrivial=n_query > 0 and len(gates) > 0, )
    return n_query


# ------------------------------------------------------------------ closure by the reference model
_CLOSURE = {}


def closure_states(n, max_depth=None):
    """BFS over the group generated by the append events on n qubits. Key (computed by the reference model only):
    (qubit count the object must report, dense unitary modulo phase). Returns the shortest history per key."""
    ck = (n, max_depth)
    if ck in _CLOSURE:
        return _CLOSURE[ck]
    evs = append_events(n)
    mats = [ref.embed(ref.CLIFFORD_GATES[e[0]], list(e[1:]), n) for e in evs]
    seen = {}
    states = []
    level = []
    for e, m in zip(evs, mats):
        k = (gates_nq([e]), ref.canon_mod_phase(m))
        if k not in seen:
            seen[k] = (e,)
            states.append((e,))
            level.append(((e,), m))
    depth = 1
    while level and (max_depth is None or depth < max_depth):
        nxt = []
        for h, U in level:
            nq = gates_nq(h)
            for e, m in zip(evs, mats):
                V = m @ U
                k = (max(nq, gates_nq([e])), ref.canon_mod_phase(V))
                if k not in seen:
                    seen[k] = h + (e,)
                    states.append(h + (e,))
                    nxt.append((h + (e,), V))
        level = nxt
        depth += 1
    _CLOSURE[ck] = states
    return states


def prepare(env):
    ref.pauli_table(1)
    ref.pauli_table(2)
    ref.pauli_mul_table(1)
    ref.pauli_mul_table(2)
    ref.all_symplectic(1)
    ref.all_symplectic(2)
    if env.tier == 'thorough':
        ref.pauli_table(3)


def build_cases(tier, seed):
    cases = []
    info = {}
    # ---- A: stateless histories
    if tier == 'quick':
        hist_cfg = [(1, 5), (2, 4)]
    else:
        hist_cfg = [(1, 6), (2, 5), (3, 4)]
    info['history_bounds'] = [{'n_max': a, 'depth': b, 'events': len(all_events(a))} for a, b in hist_cfg]
    for nq, depth in hist_cfg:
        evs = all_events(nq)
        pl = min(2, depth)
        for prefix in itertools.product(range(len(evs)), repeat=pl):
            cases.append({'kind': 'hist', 'nq': nq, 'depth': depth, 'prefix': list(prefix)})
    # ---- B: closure
    clos = [(1, None), (2, None)] if tier == 'thorough' else [(1, None), (2, None)]
    info['closure'] = []
    for n, md in clos:
        states = closure_states(n, md)
        info['closure'].append({'n': n, 'max_depth': md, 'states': len(states)})
        step = 48
        for a in range(0, len(states), step):
            cases.append({'kind': 'closure', 'n': n, 'max_depth': md, 'lo': a, 'hi': min(a + step, len(states))})
    # ---- C: pure functions
    for n in (1, 2):
        nS = len(ref.all_symplectic(n))
        step = 4 if tier == 'quick' else 2
        for a in range(0, nS, step):
            cases.append({'kind': 'autom', 'n': n, 'lo': a, 'hi': min(a + step, nS), 'allQ': tier == 'thorough'})
    cases.append({'kind': 'mult', 'n': 1})
    nS = len(ref.all_symplectic(2))
    for a in range(0, nS, 24):
        cases.append({'kind': 'mult', 'n': 2, 'lo': a, 'hi': min(a + 24, nS)})
    for n, md in clos:
        states = closure_states(n, md)
        for a in range(0, len(states), 96):
            cases.append({'kind': 'arr2f2', 'n': n, 'max_depth': md, 'lo': a, 'hi': min(a + 96, len(states))})
    info['exhaustive'] = True
    info['note'] = 'exhaustive within the stated bounds: all histories to the depth bound; full closure of the 1- and 2-qubit groups; all of Sp(2,F2), Sp(4,F2) x all phase vectors'
    return cases, info


def run_case(case, out, env):
    import numqi
    kind = case['kind']
    if kind == 'hist':
        evs = all_events(case['nq'])
        prefix = [evs[i] for i in case['prefix']]
        rest = case['depth'] - len(prefix)
        # all histories of length len(prefix)..depth that start with this prefix
        nq_tot = 0
        # every history of length < depth, or ending in an append, is a prefix of a history of length == depth that
        # ends in a query, and queries are checked at every position: so exactly those are executed.
        for tail in itertools.product(evs, repeat=rest):
            hist = [tuple(e) for e in prefix] + [tuple(e) for e in tail]
            if len(hist[-1]) != 1:
                continue
            nq_tot += run_history(numqi, out, hist)
        if out.sample is None:
            out.sample = {'kind': 'hist', 'example_history': [list(e) for e in prefix] + [['sym']]}
    elif kind == 'closure':
        n = case['n']
        states = closure_states(n, case['max_depth'])
        evs = append_events(n)
        gen = generator_indices(n)
        for h in states[case['lo']:case['hi']]:
            gates = list(h)
            if gates_nq(gates) != n:
                # fewer qubits touched so far: the object reports a smaller qubit count; still a legal state
                pass
            circ = numqi.sim.CliffordCircuit()
            for e in gates:
                getattr(circ, e[0])(*e[1:])
            out.state()
            table = ref_table(gates, gates_nq(gates))[0]
            out.outcome((gates_nq(gates), table.tobytes()), nontrivial=True)
            check_query(numqi, out, circ, gates, 'apply', list(h), 'closure')
            for e in evs:
                # transition on the *warm* object (cache filled by the query above)
                # (the generators X_k, Z_k, i*1 determine the action because every (r,S) acts as an automorphism: kind autom)
                c2 = copy.deepcopy(circ)
                getattr(c2, e[0])(*e[1:])
                check_query(numqi, out, c2, gates + [e], 'sym', list(h) + [('apply',), e, ('sym',)], 'closure_warm', which=generator_indices(gates_nq(gates + [e])))
        out.sample = {'kind': 'closure', 'n': n, 'state_history': [list(e) for e in states[case['lo']]]}
    elif kind == 'autom':
        n = case['n']
        apply = numqi.sim.clifford.apply_clifford_on_pauli
        Sall = ref.all_symplectic(n)
        f2 = ref.pauli_table(n)[0]
        MUL = ref.pauli_mul_table(n)
        N = len(f2)
        gen = generator_indices(n)
        Q = list(range(N)) if case['allQ'] else gen
        for si in range(case['lo'], case['hi']):
            Smat = Sall[si]
            for rbits in itertools.product([0, 1], repeat=2 * n):
                r = np.array(rbits, dtype=np.uint8)
                out.state()
                img = np.zeros(N, dtype=np.int64)
                ok = True
                for i in range(N):
                    v = apply(f2[i].copy(), r.copy(), Smat.copy())
                    out.trans()
                    if v.shape != (2 * n + 2,) or v.dtype != np.uint8 or v.max() > 1:
                        out.violation('autom/apply_clifford_on_pauli/not_a_pauli', 'result is not a binary Pauli vector', S=Smat, r=r, P=f2[i])
                        ok = False
                        break
                    img[i] = ref.f2_index(v)
                if not ok:
                    continue
                out.outcome(img.tobytes(), nontrivial=not np.array_equal(img, np.arange(N)))
                # bijection, phase-exact homomorphism f(PQ) = f(P) f(Q), symplectic part == S
                if len(set(img.tolist())) != N:
                    out.violation('autom/apply_clifford_on_pauli/not_bijective', 'action is not a bijection of the Pauli group', S=Smat, r=r)
                lhs = img[MUL[:, Q]]
                rhs = MUL[img[:, None], img[Q][None, :]]
                if not np.array_equal(lhs, rhs):
                    a, b = np.argwhere(lhs != rhs)[0]
                    out.violation('autom/apply_clifford_on_pauli/not_homomorphism',
                                  'f(PQ) != f(P)f(Q) including the phase', S=Smat, r=r, P=f2[a], Q=f2[Q[b]])
                xz = f2[:, 2:]
                exp_xz = (xz.astype(int) @ Smat.astype(int).T) % 2
                got_xz = f2[img][:, 2:]
                if not np.array_equal(exp_xz, got_xz):
                    out.violation('autom/apply_clifford_on_pauli/xz_part', 'X/Z part of the image is not S.(x,z)', S=Smat, r=r)
                out.trace()
        out.sample = {'kind': 'autom', 'n': n, 'S': Sall[case['lo']].tolist()}
    elif kind == 'mult':
        n = case['n']
        apply = numqi.sim.clifford.apply_clifford_on_pauli
        mult = numqi.sim.clifford.clifford_multiply
        Sall = ref.all_symplectic(n)
        f2 = ref.pauli_table(n)[0]
        N = len(f2)
        gen = generator_indices(n)

        def action(r, S_):
            return np.array([ref.f2_index(apply(f2[i].copy(), r, S_)) for i in range(N)], dtype=np.int64)
        rs = [np.array(b, dtype=np.uint8) for b in itertools.product([0, 1], repeat=2 * n)]
        if n == 1:
            elems = [(r, S_) for S_ in Sall for r in rs]
            pairs = [(x, y) for x in elems for y in elems]
        else:
            # every group element x times every generator element y (the elementary gates' tableaux), all r for x in {0, e1, 1..1}
            gens = []
            for e in append_events(2):
                U = ref.embed(ref.CLIFFORD_GATES[e[0]], list(e[1:]), 2)
                gens.append(numqi.sim.clifford.clifford_array_to_F2(U))
            rsel = [rs[0], rs[1], rs[-1], rs[6]]
            pairs = [((r, Sall[si]), y) for si in range(case['lo'], case['hi']) for r in rsel for y in gens]
            pairs += [(y, (r, Sall[si])) for si in range(case['lo'], case['hi']) for r in rsel[:2] for y in gens[:6]]
        acache = {}

        def caction(r, S_):
            k = (r.tobytes(), S_.tobytes())
            if k not in acache:
                acache[k] = action(r, S_)
            return acache[k]
        for (rx, Sx), (ry, Sy) in pairs:
            out.state()
            out.trans()
            try:
                rz, Sz = mult(rx.copy(), Sx.copy(), ry.copy(), Sy.copy())
            except AssertionError as e:
                out.violation('mult/clifford_multiply/assert', 'clifford_multiply raised on valid tableaux: %r' % (e,), rx=rx, Sx=Sx, ry=ry, Sy=Sy)
                continue
            ax = caction(rx, Sx)
            ay = caction(ry, Sy)
            az = action(rz, Sz)
            # documented: z = y o x  (x applied first)
            if not np.array_equal(az, ay[ax]):
                out.violation('mult/clifford_multiply/not_sequential', 'clifford_multiply(x,y) does not act as y(x(P))', rx=rx, Sx=Sx, ry=ry, Sy=Sy)
            out.outcome(az.tobytes(), nontrivial=not np.array_equal(az, np.arange(N)))
            out.trace()
        out.sample = {'kind': 'mult', 'n': n, 'pairs': len(pairs)}
    elif kind == 'arr2f2':
        n = case['n']
        states = closure_states(n, case['max_depth'])
        apply = numqi.sim.clifford.apply_clifford_on_pauli
        f2 = ref.pauli_table(n)[0]
        N = len(f2)
        for h in states[case['lo']:case['hi']]:
            U = ref.clifford_history_unitary(list(h), n)
            out.state()
            out.trans()
            try:
                r, S_ = numqi.sim.clifford.clifford_array_to_F2(U.copy())
            except Exception as e:
                out.violation('arr2f2/clifford_array_to_F2/%s' % type(e).__name__, 'conversion of a Clifford unitary raised %r' % (e,), history=list(h))
                continue
            table = ref.conj_action_table(U, n, dagger_first=False)
            got = np.array([ref.f2_index(apply(f2[i].copy(), r, S_)) for i in range(N)])
            if not np.array_equal(got, table):
                out.violation('arr2f2/clifford_array_to_F2/wrong_action', '(r,S) from the unitary does not reproduce U P U^dagger', history=list(h))
            out.outcome(table.tobytes(), nontrivial=not np.array_equal(table, np.arange(N)))
            out.trace()
        out.sample = {'kind': 'arr2f2', 'n': n, 'history': [list(e) for e in states[case['lo']]]}
    else:
        raise ValueError(kind)
