"""C18 - catalogue constructors return the objects they name   (mode P: product lattices, completely enumerated)

Spaces (DESIGN.md section 4, C18):
  ket     : W(n), GHZ(n), Bell(i), maximally_entangled_state(d), maximally_coherent_state(d, return_dm in {F,T}),
            Dicke(*klist) for ALL klists of every (dim, num_qudit) in the bound, Wtype(coeff) on the complete coefficient
            lattice A^n \\ {0} (+ generic atoms, dtype variants); integer arguments as python int, numpy int64 and numpy int32
            (np.int8 / np.uint8 whose result dimension exceeds the type range: recorded in counters only); default arguments GHZ(), Bell(),
            get_tetrahedron_POVM(), load_upb(kind) once each against the explicit call.
  dm      : Werner(d,a), Isotropic(d,a), maximally_mixed_state(d), get_2qutrit_Antoine2022(q), get_bes2x4/3x3_Horodecki1997
            on parameter grids that contain both end points, every documented threshold, the two neighbouring floats of every
            threshold/end point, +-1e-9, +-1e-6, +-1e-3 around them and a uniform grid; python float and numpy float64.
  closed  : get_{Werner,Isotropic}_{ree,eof,GME}(d, a) on the same grids, scalar and array arguments.
  upb     : load_upb(kind, args, return_product in {F,T}, return_bes in {F,T}) for every kind, every admissible size argument
            up to the bound, three spellings of the kind (case-insensitive), the sixparam angle lattice, args=None under the
            entropy seam; the public entry points get_upb_product(list) and upb_to_bes(list | product array) on what load_upb returned.
  povm    : get_tetrahedron_POVM(n); get_chebshev_orthonormal(d, alpha, with_computational_basis, return_basis).
  gme     : get_qubit_dicke_state_GME(n,k) for all 0<=k<=n; get_Wtype_state_GME on the normalised integer-triple lattice.

Oracle (plain numpy, written here): documented type/shape; unit norm; Hermitian, PSD, trace one; equality with the textbook
object built by explicit loops over basis strings; return_dm == projector of the ket; UPB: unit local vectors, orthonormal
products, BES == (1 - sum |v><v|)/(D-N), PSD, rank D-N, PPT over EVERY bipartition of the parties, and *exact* unextendibility
(finite combinatorial criterion: no assignment of the members to the parties leaves every party with a rank-deficient local set);
Horodecki 1997 2x4 / 3x3 families == the paper's convex decomposition built from |ij><kl| terms, 3x3 family violates the realignment
criterion for 0<a<1; get_2qutrit_Antoine2022(q) == Horodecki 1999 family at alpha = 5/2 + q (either party order, the same for all q);
POVM elements PSD and summing to 1, regular-tetrahedron Bloch vectors, product structure; each Chebyshev basis orthonormal and equal
to the cosine formula, projectors == |row><row|, each block of d projectors sums to 1; closed forms: exactly 0 on the
separable range, equal to literature formulas evaluated on the overlap measured from the *returned matrix* (Tr rho F, <Phi|rho|Phi>),
equal to get_eof_2qubit / get_gme_2qubit for d=2, to get_relative_entropy against the boundary state for REE, known end-point
values, scalar == array evaluation.

Tolerances (DESIGN 3.2: c * eps * kappa, c = C_SAFE = 1e3, eps = 2.2e-16 unless the input dtype is float32):
  TOL_VEC   amplitudes are one sqrt and one division of exact integers: relative error <= 2 eps; the squared norm is a sum of
            non-negative terms each with relative error <= 4 eps, so |norm^2 - 1| <= 4 eps.  kappa = 8.
  TOL_TR    trace = sum of non-negative diagonal terms with relative error <= 4 eps each: |tr - 1| <= 4 eps.  kappa = 8.
  tol_eig   eigvalsh is backward stable: |delta lambda| <= p(D) eps ||A||_2 with p(D) ~ D.  kappa = D * ||A||_2.
  gram      an inner product of product vectors is a product over the parties of local inner products of d_i terms:
            kappa = sum_i (d_i + 2).
  closed    binary entropy h(x) evaluated at x with absolute error eps (cancellation in 1 - sqrt(1 - f^2)) changes by
            eps*|log x| <= 37 eps for x >= eps.  kappa = 40 (absolute).  In addition the closed forms are ill conditioned in the
            overlap f = Tr(rho F) / F = <Phi|rho|Phi> at the pure end point (d/df sqrt(1-f^2) unbounded): the variation of the
            reference over overlap +- DELTA_OVL (64 eps: rounding of alpha, of the constructor and of the measured overlap) is added.
  ree       -Tr rho log sigma through eigh: kappa = D * max|log lambda_min(sigma)| <= D * 37.
  generic 2-qubit routines: Wootters' concurrence takes square roots of eigenvalues that vanish for rank-deficient states;
            an eigenvalue error 16 eps becomes 3 * sqrt(16 eps) = 1.8e-7 =: DELTA_C in the concurrence. The tolerance of the
            comparison is the variation of the *reference* function over [C - DELTA_C, C + DELTA_C] (+ closed tolerance).
  Threshold dead band (DESIGN 3.2): parameters within BAND = 8 ulp of a separability threshold are only required to give a
            finite answer within the closed tolerance of 0; strictly below the band the answer must be exactly 0.
"""
import fractions
import functools
import itertools
import math

import numpy as np

from mc import core
from mc import seams

PROPERTY = 'C18'
GUARD = ['numqi.state', 'numqi.entangle.upb']  # argument-immutability oracle (mc.seams.ImmutabilityGuard)
GUARD_LAYOUT = ['numqi.state', 'numqi.entangle.upb']  # memory-layout metamorphic oracle (same wrapper)
LEVEL = 'model_checking'
RULE = ('mode P: case = (constructor family, size argument); inside a case the complete argument lattice is executed (all klists, '
        'all coefficient patterns, all grid parameters incl. both end points and the floats adjacent to every threshold, all option '
        'combinations return_dm / return_product x return_bes / with_computational_basis x return_basis, all spellings of the kind, '
        'python and numpy (int64, int32, float64) scalar types, every default argument once). state = one (constructor, argument point, option combination); transition = one numqi call '
        'whose complete return value was compared with the oracle; trace = one option path on one argument point compared in '
        'lock-step (ket -> return_dm projector; list -> product -> BES -> get_upb_product / upb_to_bes called directly; projectors -> '
        'return_basis; scalar -> array evaluation; default call -> explicit call); '
        'non-trivial = returned object has at least two entries of different modulus or a non-zero closed-form value')
ASSUMPTIONS = [
    'reference = textbook objects built by explicit loops over basis strings (W, GHZ, Dicke, |Phi_d>, swap operator, antisymmetric '
    'projector) and literature closed forms evaluated on overlaps measured from the returned matrices (Vollbrecht-Werner EOF, '
    'Terhal-Vollbrecht EOF, Wei-Goldbart GME, Vedral-Plenio/Rains REE)',
    'Bell(i): the docstring fixes no order; the four states must be an orthonormal basis of {Phi+-, Psi+-} (up to sign)',
    'Wtype(coeff): the docstring fixes no qubit order; either c_i on qubit i or on qubit n-1-i is accepted, but the same one for all inputs',
    'get_tetrahedron_POVM(n>1): no element order is documented; the elements must be the 4^n Kronecker products of the single-qubit '
    'elements, each exactly once',
    'exact unextendibility is decided by enumerating hyperplane flats of the local vector sets when C(m, d-1) <= 60000; otherwise only '
    'the weaker test "no product of local alphabet vectors is orthogonal to all members" is run (counted separately)',
    'sixparam angles whose gamma/theta are multiples of pi/2 are documented not to give a UPB and are excluded from the lattice',
    'zero-qudit Dicke states, Wtype of the zero vector, genshifts with one party (empty complement), d=1 Chebyshev bases are outside the domain',
    'for Dicke states the closest product state is symmetric (Huebener et al. 2009); used for the lower lattice bound only as a consistency check',
    'get_bes2x4/3x3_Horodecki1997: reference = convex decomposition of P. Horodecki, Phys. Lett. A 232 (1997) 333 (rho_insep + |Psi_a><Psi_a|), '
    'not the printed matrix; the entry sqrt(1-a^2)/2 is compared with its conditioning 1/sqrt(1-a^2) in a',
    'get_2qutrit_Antoine2022: the docstring gives only the reference and a classification by |q|; the object is taken to be the Horodecki 1999 '
    'family 2/7 |Psi+><Psi+| + alpha/7 sigma_+ + (5-alpha)/7 sigma_- at alpha = 5/2 + q; q -> -q is the exchange of the parties, so either '
    'orientation is accepted but must be the same for every q (observed orientation is a counter)',
    'realignment witness of the 3x3 family: judged only where the excess of the reference state over 1 is above 4 tolerances (a >= ~1e-9 from '
    'either end); the 2x4 family is not detected by realignment and only its PPT property and matrix are checked',
    'closed-form EOF / GME of Werner and isotropic states for d >= 3: numqi has no deterministic generic routine for mixed states beyond two '
    'qubits (only gradient-descent upper-bound models), so for d >= 3 they are compared with the literature formulas on measured overlaps, with '
    'get_relative_entropy (REE) and with get_eof_pure at the pure end point Isotropic(d, 1) only',
    'np.int8 / np.uint8 size arguments whose result dimension (2**n, d*d, 4**n) exceeds the range of the type are recorded, not judged',
    'real parameters off the grids, dimensions above the stated bounds are not covered',
]
CHUNK = 1

EPS = 2.220446049250313e-16
C_SAFE = 1e3
TOL_VEC = C_SAFE * EPS * 8
TOL_TR = C_SAFE * EPS * 8
TOL_CLOSED = C_SAFE * EPS * 40
DELTA_C = 3 * math.sqrt(16 * EPS)
DELTA_OVL = 64 * EPS
BAND_ULP = 8


def tol_eig(D, norm2=1.0):
    return C_SAFE * EPS * D * max(norm2, 1e-300)


def arr_detail(x):
    try:
        return np.asarray(x)
    except Exception:
        return repr(x)


# ------------------------------------------------------------------ reference objects
def ref_W(n):
    v = np.zeros(2 ** n)
    for bits in itertools.product([0, 1], repeat=n):
        if sum(bits) == 1:
            v[int(''.join(map(str, bits)), 2)] = 1 / math.sqrt(n)
    return v


def ref_GHZ(n):
    v = np.zeros(2 ** n)
    v[0] += 1 / math.sqrt(2)
    v[2 ** n - 1] += 1 / math.sqrt(2)
    return v


def ref_dicke(klist):
    dim, n = len(klist), sum(klist)
    v = np.zeros(dim ** n)
    cnt = 0
    for s in itertools.product(range(dim), repeat=n):
        if all(s.count(l) == klist[l] for l in range(dim)):
            idx = 0
            for x in s:
                idx = idx * dim + x
            v[idx] = 1.0
            cnt += 1
    return v / math.sqrt(cnt), cnt


def all_klists(dim, n):
    if dim == 1:
        return [(n,)]
    return [(x,) + y for x in range(n + 1) for y in all_klists(dim - 1, n - x)]


def ref_maxent(d):
    v = np.zeros(d * d)
    for i in range(d):
        v[i * d + i] = 1 / math.sqrt(d)
    return v


@functools.lru_cache(maxsize=None)
def ref_swap(d):
    F = np.zeros((d * d, d * d))
    for i in range(d):
        for j in range(d):
            F[i * d + j, j * d + i] = 1.0
    return F


def ref_ketbra(dims, terms):
    """sum of c |i j><k l| over terms (c, (i, j), (k, l)), index = i*dB + j, by an explicit loop"""
    dA, dB = dims
    rho = np.zeros((dA * dB, dA * dB))
    for c, (i, j), (k, l) in terms:
        rho[i * dB + j, k * dB + l] += c
    return rho


def ref_pure_terms(weight, amp):
    """terms of weight * |psi><psi| for |psi> = sum amp[(i,j)] |i j>"""
    return [(weight * x * y, ij, kl) for ij, x in amp.items() for kl, y in amp.items()]


def ref_bes3x3(a):
    """P. Horodecki, Phys. Lett. A 232 (1997) 333, section 4.1, in the paper's convex form (not the printed matrix):
    rho_a = 8a/(8a+1) rho_insep + 1/(8a+1) |Psi_a><Psi_a|,  rho_insep = 3/8 P_+ + 1/8 Q,  P_+ projector on (|00>+|11>+|22>)/sqrt3,
    Q = 1 - sum_i |ii><ii| - |20><20|,  |Psi_a> = |2> (sqrt((1+a)/2) |0> + sqrt((1-a)/2) |2>)"""
    w = 8 * a / (8 * a + 1)
    terms = ref_pure_terms(w * 3 / 8, {(i, i): 1 / math.sqrt(3) for i in range(3)})
    terms += [(w / 8, (i, j), (i, j)) for i in range(3) for j in range(3) if i != j and (i, j) != (2, 0)]
    terms += ref_pure_terms(1 / (8 * a + 1), {(2, 0): math.sqrt((1 + a) / 2), (2, 2): math.sqrt(max(0.0, (1 - a) / 2))})
    return ref_ketbra((3, 3), terms)


def ref_bes2x4(b):
    """same paper, section 4.2: sigma_b = 7b/(7b+1) rho_insep + 1/(7b+1) |Phi_b><Phi_b|,
    rho_insep = 2/7 sum_{i=1..3} |Psi_i><Psi_i| + 1/7 |03><03|,  |Psi_i> = (|0,i-1> + |1,i>)/sqrt2,
    |Phi_b> = |1> (sqrt((1+b)/2) |0> + sqrt((1-b)/2) |3>)"""
    w = 7 * b / (7 * b + 1)
    terms = []
    for i in (1, 2, 3):
        terms += ref_pure_terms(w * 2 / 7, {(0, i - 1): 1 / math.sqrt(2), (1, i): 1 / math.sqrt(2)})
    terms.append((w / 7, (0, 3), (0, 3)))
    terms += ref_pure_terms(1 / (7 * b + 1), {(1, 0): math.sqrt((1 + b) / 2), (1, 3): math.sqrt(max(0.0, (1 - b) / 2))})
    return ref_ketbra((2, 4), terms)


def ref_horodecki1999(alpha, swap):
    """P., M. and R. Horodecki, PRL 82 (1999) 1056 (the family used by Girardin et al. 2022 with alpha = 5/2 + q):
    rho_alpha = 2/7 |Psi+><Psi+| + alpha/7 sigma_+ + (5-alpha)/7 sigma_-,  sigma_+ = (|01><01| + |12><12| + |20><20|)/3,
    sigma_- = (|10><10| + |21><21| + |02><02|)/3.  swap=True exchanges the two parties (sigma_+ <-> sigma_-)."""
    terms = ref_pure_terms(2 / 7, {(i, i): 1 / math.sqrt(3) for i in range(3)})
    for i in range(3):
        p, m = (i, (i + 1) % 3), ((i + 1) % 3, i)
        if swap:
            p, m = m, p
        terms.append((alpha / 21, p, p))
        terms.append(((5 - alpha) / 21, m, m))
    return ref_ketbra((3, 3), terms)


def ref_realign_norm(rho, dims):
    """trace norm of the realigned matrix R[(i,k),(j,l)] = rho[(i,j),(k,l)] (computable cross norm; <= 1 on separable states)"""
    dA, dB = dims
    R = np.zeros((dA * dA, dB * dB), dtype=np.complex128)
    for i in range(dA):
        for j in range(dB):
            for k in range(dA):
                for l in range(dB):
                    R[i * dA + k, j * dB + l] = rho[i * dB + j, k * dB + l]
    return float(np.linalg.svd(R, compute_uv=False).sum())


def ref_pt(rho, dims, subset):
    """partial transpose on the parties in `subset`"""
    n = len(dims)
    t = np.asarray(rho).reshape(list(dims) + list(dims))
    perm = list(range(2 * n))
    for i in subset:
        perm[i], perm[n + i] = perm[n + i], perm[i]
    D = int(np.prod(dims))
    return t.transpose(perm).reshape(D, D)


def bipartitions(n):
    """all non-trivial bipartitions, one representative each (party 0 never transposed)"""
    ret = []
    for r in range(1, n):
        for sub in itertools.combinations(range(1, n), r):
            ret.append(sub)
    return ret


def min_eig(m):
    m = (m + m.conj().T) / 2
    return float(np.linalg.eigvalsh(m)[0])


def h2(x):
    """binary entropy in nats, h(0)=h(1)=0"""
    x = min(max(float(x), 0.0), 1.0)
    r = 0.0
    if x > 0:
        r -= x * math.log(x)
    if x < 1:
        r -= (1 - x) * math.log1p(-x)
    return r


def stable_half_gap(f):
    """(1 - sqrt(1 - f^2))/2 without cancellation"""
    f2 = min(f * f, 1.0)
    return f2 / (2 * (1 + math.sqrt(1 - f2)))


def ref_werner_eof_from_f(f):
    # Vollbrecht & Werner PRA 64 062307: E = h((1 - sqrt(1 - f^2))/2) for f = Tr(rho F) < 0, else 0
    return h2(stable_half_gap(f)) if f < 0 else 0.0


def ref_werner_gme_from_f(f):
    # Wei & Goldbart PRA 68 042307 eq 51
    return stable_half_gap(f) if f < 0 else 0.0


def ref_werner_ree_from_pm(pm):
    # U(x)U invariant: closest separable state has antisymmetric weight 1/2: S = log 2 - h(p_-) for p_- >= 1/2
    return math.log(2) - h2(pm) if pm > 0.5 else 0.0


def ref_iso_gamma(F, d):
    return (math.sqrt(F) + math.sqrt((d - 1) * max(0.0, 1 - F))) ** 2 / d


def ref_iso_gme_from_F(F, d):
    # Wei & Goldbart eq 54
    return max(0.0, 1 - ref_iso_gamma(F, d)) if F > 1 / d else 0.0


def ref_iso_eof_from_F(F, d):
    # Terhal & Vollbrecht PRL 85 2625
    if F <= 1 / d:
        return 0.0
    if d > 2 and F >= 4 * (d - 1) / (d * d):
        return d * math.log(d - 1) * (F - 1) / (d - 2) + math.log(d)
    g = min(1.0, ref_iso_gamma(F, d))
    return h2(g) + (1 - g) * math.log(d - 1)


def ref_iso_ree_from_F(F, d):
    if F <= 1 / d:
        return 0.0
    r = math.log(d)
    if F > 0:
        r += F * math.log(F)
    if F < 1:
        r += (1 - F) * math.log((1 - F) / (d - 1))
    return r


def ref_conc_to_eof(C):
    C = min(max(C, 0.0), 1.0)
    return h2(stable_half_gap(C))


def ref_conc_to_gme(C):
    C = min(max(C, 0.0), 1.0)
    return stable_half_gap(C)


def variation(fun, C, delta):
    lo, hi = max(0.0, C - delta), min(1.0, C + delta)
    return max(abs(fun(hi) - fun(C)), abs(fun(C) - fun(lo)))


# ------------------------------------------------------------------ generic oracles
def is_real_or_complex_float(a):
    return isinstance(a, np.ndarray) and a.dtype.kind in 'fc'


def check_ket(out, key0, psi, D, eps_scale=1.0, **det):
    """documented type / shape / finiteness / unit norm. Returns True if the ket can be compared further."""
    if not isinstance(psi, np.ndarray):
        out.violation(key0 + '/not_ndarray', 'returned %s, documented np.ndarray' % type(psi).__name__, **det)
        return False
    if psi.shape != (D,):
        out.violation(key0 + '/shape', 'returned shape %s, documented (%d,)' % (psi.shape, D), **det)
        return False
    if psi.dtype.kind not in 'fc':
        out.violation(key0 + '/dtype', 'returned dtype %s, not a floating type' % psi.dtype, **det)
        return False
    if not np.all(np.isfinite(psi)):
        out.violation(key0 + '/nonfinite', 'NaN/Inf in the returned ket', observed=psi, **det)
        return False
    nrm2 = float(np.sum(np.abs(psi.astype(np.complex128)) ** 2))
    if abs(nrm2 - 1) > TOL_VEC * eps_scale:
        out.violation(key0 + '/not_normalized', 'squared norm %.17g differs from 1 by more than %.2g' % (nrm2, TOL_VEC * eps_scale), observed=psi, **det)
        return False
    return True


def check_dm(out, key0, rho, D, **det):
    """documented type / shape / finite / Hermitian / trace one / PSD. Returns True if all hold."""
    if not isinstance(rho, np.ndarray):
        out.violation(key0 + '/not_ndarray', 'returned %s, documented np.ndarray' % type(rho).__name__, **det)
        return False
    if rho.shape != (D, D):
        out.violation(key0 + '/shape', 'returned shape %s, documented (%d,%d)' % (rho.shape, D, D), **det)
        return False
    if not np.all(np.isfinite(rho)):
        out.violation(key0 + '/nonfinite', 'NaN/Inf in the returned density matrix', **det)
        return False
    ok = True
    mx = float(np.abs(rho).max())
    if float(np.abs(rho - rho.conj().T).max()) > C_SAFE * EPS * max(mx, 1e-300) * 4:
        out.violation(key0 + '/not_hermitian', 'max|rho - rho^dagger| = %.3g' % float(np.abs(rho - rho.conj().T).max()), **det)
        ok = False
    tr = complex(np.trace(rho))
    if abs(tr - 1) > TOL_TR:
        out.violation(key0 + '/trace', 'trace %.17g, expected 1' % tr.real, trace=tr.real, **det)
        ok = False
    n2 = float(np.linalg.norm(rho, 2)) if D <= 600 else mx * D
    lam = min_eig(rho)
    if lam < -tol_eig(D, n2):
        out.violation(key0 + '/not_psd', 'smallest eigenvalue %.3g < -%.2g' % (lam, tol_eig(D, n2)), **det)
        ok = False
    return ok


def nontriv(a):
    a = np.abs(np.asarray(a)).reshape(-1)
    return bool(a.size > 1 and (a.max() - a.min()) > 1e-9)


def _flat_arrays(x):
    if isinstance(x, np.ndarray):
        return [x] if x.dtype.kind in 'biufc' else []
    if isinstance(x, (tuple, list)):
        ret = []
        for y in x:
            ret += _flat_arrays(y)
        return ret
    return []


def _call_detail(args, kwargs):
    """violation detail of a failed call: the caller's detail plus the positional arguments (the caller's detail may itself have an
    'args' entry - the UPB size argument)"""
    det = dict(kwargs)
    det['call_args' if 'args' in det else 'args'] = [arr_detail(a) for a in args]
    return det


def call(out, key0, fn, *args, admissible=True, fresh=True, **kwargs):
    """call a numqi function; classify exceptions (DESIGN 3.3). Returns (ok, value)."""
    out.trans()
    try:
        r0 = fn(*args)
        # freshness (history: call, the caller modifies what it received, call again): a constructor must name the same object
        # on every call, so results must not be views of state shared between calls
        arrs0 = _flat_arrays(r0)
        if arrs0 and admissible and fresh:
            snap = [a.copy() for a in arrs0]
            poisoned = False
            for a in arrs0:
                if a.flags.writeable and a.size:
                    with np.errstate(all='ignore'):
                        a[...] = a + (1.2345 if a.dtype.kind in 'fc' else 1)
                    poisoned = True
            if poisoned:
                r1 = fn(*args)
                arrs1 = _flat_arrays(r1)
                same = len(arrs1) == len(snap) and all(x.shape == y.shape and np.array_equal(x, y, equal_nan=True) for x, y in zip(arrs1, snap))
                if not same and not getattr(fn, '_c18_random', False):
                    out.violation(key0 + '/result_shares_state_between_calls',
                                  'a second call with the same arguments returns a different object after the first result was modified in place by the caller',
                                  **_call_detail(args, kwargs))
                return True, r1
        return True, r0
    except AssertionError as e:
        if core.is_precondition_assert(e) and not admissible:
            out.count('rejected_by_precondition')
            return False, None
        out.violation(key0 + '/AssertionError', 'AssertionError on an admissible input: %s' % (str(e)[:100],), **_call_detail(args, kwargs))
        return False, None
    except Exception as e:
        if not admissible:
            out.count('inadmissible_raised_' + type(e).__name__)
            return False, None
        out.violation('%s/%s' % (key0, type(e).__name__), '%s on an admissible input: %s' % (type(e).__name__, str(e)[:200]),
                      **_call_detail(args, kwargs))
        return False, None


def int_variants(n):
    return [('int', int(n)), ('np.int64', np.int64(n)), ('np.int32', np.int32(n))]


SMALL_INT_TYPES = (('np.int8', np.int8), ('np.uint8', np.uint8))


def record_small_int(out, label, fn, n, result_dim, expected):
    """np.int8 / np.uint8 size arguments whose RESULT dimension exceeds the range of the type (2**n, d*d, 4**n wrap around inside numpy
    scalar arithmetic). Recorded only (counters), never judged: the docstrings say `int` and the property does not cover them."""
    for tname, t in SMALL_INT_TYPES:
        if n > np.iinfo(t).max or result_dim <= np.iinfo(t).max:
            continue
        try:
            r = fn(t(n))
            same = isinstance(r, np.ndarray) and isinstance(expected, np.ndarray) and r.shape == expected.shape and np.array_equal(r, expected)
            out.count('small_int_recorded[%s(%s)]:%s' % (label, tname, 'same_as_int' if same else 'differs_from_int'))
        except Exception as e:
            out.count('small_int_recorded[%s(%s)]:raised_%s' % (label, tname, type(e).__name__))


# ------------------------------------------------------------------ ket constructors
def run_ket(case, out, env):
    import numqi
    S = numqi.state
    fn = case['fn']
    if fn in ('W', 'GHZ'):
        for n in range(1, case['nmax'] + 1):
            ref = ref_W(n) if fn == 'W' else ref_GHZ(n)
            if fn == 'GHZ' and n == 1:
                ref = np.array([1, 1]) / math.sqrt(2)
            for tname, nn in int_variants(n):
                out.state()
                key0 = 'ket/%s' % fn
                ok, psi = call(out, key0, getattr(S, fn), nn)
                if not ok or not check_ket(out, key0, psi, 2 ** n, n=n, argtype=tname):
                    continue
                if np.abs(psi - ref).max() > TOL_VEC:
                    out.violation(key0 + '/wrong_state', '%s(%d) is not the %s state' % (fn, n, fn), n=n, observed=psi, expected=ref)
                out.outcome((fn, psi), nontrivial=nontriv(psi))
                if tname == 'int':
                    record_small_int(out, fn, getattr(S, fn), n, 2 ** n, psi)
        if fn == 'GHZ' and case['nmax'] >= 2:
            # default argument: GHZ() is documented as n=2
            out.state()
            ok, psi = call(out, 'ket/GHZ', lambda: S.GHZ())
            if ok and check_ket(out, 'ket/GHZ', psi, 4, n='default'):
                if np.abs(psi - ref_GHZ(2)).max() > TOL_VEC:
                    out.violation('ket/GHZ/default_differs', 'GHZ() differs from GHZ(2)', observed=psi, expected=ref_GHZ(2))
                out.count('default_argument_call')
                out.trace()
        out.sample = {'kind': 'ket', 'fn': fn, 'n': 3, 'expected': (ref_W(3) if fn == 'W' else ref_GHZ(3)).tolist()}
    elif fn == 'Bell':
        s = 1 / math.sqrt(2)
        named = {'Phi+': np.array([s, 0, 0, s]), 'Phi-': np.array([s, 0, 0, -s]), 'Psi+': np.array([0, s, s, 0]), 'Psi-': np.array([0, s, -s, 0])}
        got = {}
        for i in range(4):
            for tname, ii in int_variants(i) + [('default', None)][:(1 if i == 0 else 0)]:
                out.state()
                ok, psi = call(out, 'ket/Bell', (lambda: S.Bell()) if ii is None else (lambda: S.Bell(ii)))
                if not ok or not check_ket(out, 'ket/Bell', psi, 4, i=i, argtype=tname):
                    continue
                names = [k for k, v in named.items() if min(np.abs(psi - v).max(), np.abs(psi + v).max()) <= TOL_VEC]
                if len(names) != 1:
                    out.violation('ket/Bell/not_a_bell_state', 'Bell(%d) is none of Phi+-, Psi+-' % i, i=i, observed=psi)
                    continue
                if ii is None and names[0] != got.get(0):
                    out.violation('ket/Bell/default_differs', 'Bell() differs from Bell(0)', observed=psi)
                got.setdefault(i, names[0])
                out.outcome(('Bell', psi), nontrivial=True)
        if len(got) == 4 and len(set(got.values())) != 4:
            out.violation('ket/Bell/not_a_basis', 'Bell(0..3) do not form a basis: %s' % (got,), mapping=got)
        for bad in (-1, 4):
            out.state()
            ok, psi = call(out, 'ket/Bell', S.Bell, bad, admissible=False)
            if ok:
                out.count('inadmissible_accepted')
        out.trace()
        out.sample = {'kind': 'ket', 'fn': 'Bell', 'mapping': got}
    elif fn == 'maxent':
        for d in range(2, case['dmax'] + 1):
            for tname, dd in int_variants(d):
                out.state()
                key0 = 'ket/maximally_entangled_state'
                ok, psi = call(out, key0, S.maximally_entangled_state, dd)
                if not ok or not check_ket(out, key0, psi, d * d, d=d, argtype=tname):
                    continue
                if np.abs(psi - ref_maxent(d)).max() > TOL_VEC:
                    out.violation(key0 + '/wrong_state', 'not sum_i |ii>/sqrt(d)', d=d, observed=psi)
                m = psi.reshape(d, d)
                if np.abs(m @ m.conj().T - np.eye(d) / d).max() > TOL_VEC:
                    out.violation(key0 + '/reduced_state_not_maximally_mixed', 'Tr_B |psi><psi| != 1/d', d=d, observed=psi)
                out.outcome(('maxent', psi), nontrivial=nontriv(psi))
                if tname == 'int':
                    record_small_int(out, 'maximally_entangled_state', S.maximally_entangled_state, d, d * d, psi)
        out.sample = {'kind': 'ket', 'fn': 'maximally_entangled_state', 'd': 2, 'expected': ref_maxent(2).tolist()}
    elif fn == 'coherent':
        for d in range(1, case['dmax'] + 1):
            for tname, dd in int_variants(d):
                key0 = 'ket/maximally_coherent_state'
                out.state()
                ok, psi = call(out, key0, S.maximally_coherent_state, dd)
                good = ok and check_ket(out, key0, psi, d, d=d, argtype=tname)
                if good and np.abs(np.abs(psi) - 1 / math.sqrt(d)).max() > TOL_VEC:
                    out.violation(key0 + '/not_uniform', 'amplitudes do not all have modulus 1/sqrt(d)', d=d, observed=psi)
                for flag in (False, True):
                    out.state()
                    ok2, r = call(out, key0, lambda: S.maximally_coherent_state(dd, return_dm=flag))
                    if not ok2:
                        continue
                    if not flag:
                        if good and not (isinstance(r, np.ndarray) and r.shape == psi.shape and np.array_equal(r, psi)):
                            out.violation(key0 + '/return_dm_False_differs', 'return_dm=False differs from the default call', d=d)
                        continue
                    if not check_dm(out, key0 + '/return_dm', r, d, d=d, argtype=tname):
                        continue
                    if good:
                        proj = psi[:, None] * psi[None, :].conj()
                        if np.abs(r - proj).max() > TOL_VEC:
                            out.violation(key0 + '/return_dm_not_projector',
                                          'maximally_coherent_state(%d, return_dm=True) is not |psi><psi| of the ket returned without the option '
                                          '(max deviation %.3g)' % (d, np.abs(r - proj).max()), d=d, observed=r, expected=proj)
                        out.trace()
                    out.outcome(('coherent_dm', r), nontrivial=nontriv(r))
                if good:
                    out.outcome(('coherent', psi), nontrivial=d > 1)
        out.sample = {'kind': 'ket', 'fn': 'maximally_coherent_state', 'd': 2, 'return_dm': True, 'expected': [[0.5, 0.5], [0.5, 0.5]]}
    elif fn == 'Dicke':
        dim, n = case['dim'], case['n']
        key0 = 'ket/Dicke'
        allv = []
        for kl in all_klists(dim, n):
            ref, cnt = ref_dicke(kl)
            for tname, args in (('int', tuple(int(k) for k in kl)), ('np.int64', tuple(np.int64(k) for k in kl)), ('np.int32', tuple(np.int32(k) for k in kl))):
                out.state()
                ok, psi = call(out, key0, lambda: S.Dicke(*args))
                if not ok or not check_ket(out, key0, psi, dim ** n, klist=list(kl), argtype=tname):
                    continue
                if np.abs(psi - ref).max() > TOL_VEC:
                    out.violation(key0 + '/wrong_state', 'Dicke%s is not the uniform superposition of the %d strings with that occupation' % (kl, cnt),
                                  klist=list(kl), observed=psi, expected=ref)
                out.outcome(('Dicke', kl, psi), nontrivial=cnt > 1)
                if tname == 'int':
                    allv.append(psi)
        if len(allv) == len(all_klists(dim, n)):
            G = np.stack(allv) @ np.stack(allv).T
            if np.abs(G - np.eye(len(allv))).max() > TOL_VEC:
                out.violation(key0 + '/not_orthonormal_family', 'Dicke states of %d qudits of dimension %d are not orthonormal' % (n, dim), dim=dim, n=n)
            out.trace()
        out.sample = {'kind': 'ket', 'fn': 'Dicke', 'klist': list(all_klists(dim, n)[0])}
    elif fn == 'Wtype':
        run_wtype(case, out, env)
    else:
        raise ValueError(fn)


def wtype_alphabet(n, quick):
    if n <= 3:
        A = [0, 1, -1, 2, 1j]
    elif n <= 5:
        A = [0, 1, -2, 1j]
    else:
        A = [0, 1, 1j]
    return A


def run_wtype(case, out, env):
    import numqi
    n = case['n']
    key0 = 'ket/Wtype'
    A = wtype_alphabet(n, True)
    conv = set()
    inputs = []
    for pat in itertools.product(A, repeat=n):
        if not any(pat):
            out.count('outside_math_domain')
            continue
        iscomplex = any(isinstance(p, complex) for p in pat)
        if iscomplex:
            inputs.append(('c128', np.array(pat, dtype=np.complex128)))
        else:
            inputs.append(('f64', np.array(pat, dtype=np.float64)))
            inputs.append(('i64', np.array(pat, dtype=np.int64)))
            inputs.append(('f32', np.array(pat, dtype=np.float32)))
    rng = env.rng('C18', 'wtype', n)
    for g in range(case['G']):
        inputs.append(('f64', rng.normal(size=n)))
        inputs.append(('c128', rng.normal(size=n) + 1j * rng.normal(size=n)))
    widx = [2 ** k for k in range(n)]
    for dt, coeff in inputs:
        out.state()
        c0 = coeff.copy()
        ok, psi = call(out, key0, numqi.state.Wtype, coeff)
        if not np.array_equal(c0, coeff):
            out.violation(key0 + '/input_mutated', 'Wtype modified its argument in place', coeff=c0)
        escale = (1.1920929e-07 / EPS) if dt == 'f32' else 1.0
        if not ok or not check_ket(out, key0, psi, 2 ** n, eps_scale=escale * max(1, n / 4), coeff=c0, dtype=dt):
            continue
        expect = c0.astype(np.complex128) / np.linalg.norm(c0.astype(np.complex128))
        rest = psi.astype(np.complex128).copy()
        rest[widx] = 0
        if np.abs(rest).max() > 0:
            out.violation(key0 + '/support', 'amplitude outside the weight-one strings', coeff=c0, observed=psi)
            continue
        a_le = psi[widx].astype(np.complex128)          # coefficient i on basis index 2^i  (qubit n-1-i in kron order)
        tolv = TOL_VEC * escale
        m_le = np.abs(a_le - expect).max() <= tolv
        m_be = np.abs(a_le[::-1] - expect).max() <= tolv
        if not (m_le or m_be):
            out.violation(key0 + '/wrong_amplitudes', 'amplitudes on the weight-one strings are not coeff/|coeff| in either qubit order', coeff=c0, observed=psi)
            continue
        if m_le != m_be:
            conv.add('c_i_on_index_2^i' if m_le else 'c_i_on_qubit_i')
        if (psi.dtype.kind == 'c') != (dt == 'c128'):
            out.violation(key0 + '/dtype_kind', 'real coefficients gave dtype %s / complex gave real' % psi.dtype, coeff=c0)
        out.outcome(('Wtype', psi), nontrivial=nontriv(psi))
    if len(conv) > 1:
        out.violation(key0 + '/inconsistent_qubit_order', 'Wtype uses different qubit orders for different inputs', n=n)
    out.count('wtype_convention[%s]' % ','.join(sorted(conv)) if conv else 'wtype_convention[undetermined]')
    out.trace()
    out.sample = {'kind': 'ket', 'fn': 'Wtype', 'coeff': [1, 2, 2], 'convention': sorted(conv)}


# ------------------------------------------------------------------ parameter grids
def make_grid(lo, hi, thresholds, nuni):
    pts = {float(lo), float(hi), float(np.nextafter(lo, hi)), float(np.nextafter(hi, lo))}
    for t in thresholds:
        t = float(t)
        pts |= {t, float(np.nextafter(t, np.inf)), float(np.nextafter(t, -np.inf))}
        for dlt in (1e-9, 1e-6, 1e-3):
            pts |= {t + dlt, t - dlt}
    pts |= set(float(x) for x in np.linspace(lo, hi, nuni))
    return sorted(p for p in pts if lo <= p <= hi)


def position(alpha, t_exact):
    """'below' / 'band' / 'above' relative to the exact rational threshold"""
    diff = fractions.Fraction(float(alpha)) - t_exact
    if abs(diff) <= fractions.Fraction(BAND_ULP * EPS) * max(abs(t_exact), fractions.Fraction(1, 10 ** 6)):
        return 'band'
    return 'below' if diff < 0 else 'above'


def family_info(fam, d):
    if fam == 'Werner':
        lo, hi, t, tex = -1.0, 1.0, 1 / d, fractions.Fraction(1, d)
    else:
        lo, hi, t, tex = -1 / (d ** 2 - 1), 1.0, 1 / (d + 1), fractions.Fraction(1, d + 1)
    return lo, hi, t, tex


def float_variants(a):
    return [('float', float(a)), ('np.float64', np.float64(a))]


# ------------------------------------------------------------------ density-matrix constructors
def run_dm(case, out, env):
    import numqi
    S = numqi.state
    fn = case['fn']
    if fn in ('Werner', 'Isotropic'):
        d = case['d']
        D = d * d
        lo, hi, t, tex = family_info(fn, d)
        key0 = 'dm/%s' % fn
        ctor = getattr(S, fn)
        bandp = 4 * tol_eig(D) * d * d
        phi = ref_maxent(d)
        for a in make_grid(lo, hi, [t, 0.0], case['nuni']):
            for tname, aa in float_variants(a):
                for dname, dd in int_variants(d)[:(3 if tname == 'float' else 1)]:
                    out.state()
                    ok, rho = call(out, key0, ctor, dd, aa)
                    if not ok or not check_dm(out, key0, rho, D, d=d, alpha=a, argtype=tname):
                        continue
                    if fn == 'Werner':
                        ref = (np.eye(D) - a * ref_swap(d)) / (d * d - d * a)
                    else:
                        ref = (1 - a) / (d * d) * np.eye(D) + a * np.outer(phi, phi)
                    if np.abs(rho - ref).max() > TOL_VEC:
                        out.violation(key0 + '/wrong_state', '%s(%d,%r) differs from the textbook state by %.3g' % (fn, d, a, np.abs(rho - ref).max()),
                                      d=d, alpha=a, observed=rho)
                    lam = min_eig(ref_pt(rho, (d, d), (1,)))
                    if a <= t - bandp and lam < -tol_eig(D):
                        out.violation(key0 + '/npt_in_documented_sep_range', 'alpha=%r is in the documented SEP range but the partial transpose has eigenvalue %.3g' % (a, lam), d=d, alpha=a)
                    if a >= t + bandp and lam >= -tol_eig(D):
                        out.violation(key0 + '/ppt_outside_documented_sep_range', 'alpha=%r is outside the documented SEP range but the state is PPT' % (a,), d=d, alpha=a)
                    out.outcome((fn, d, rho), nontrivial=nontriv(rho))
        for bad in (lo - 1e-9, hi + 1e-9):
            out.state()
            ok, _ = call(out, key0, ctor, d, bad, admissible=False)
            if ok:
                out.count('inadmissible_accepted')
        ok, _ = call(out, key0, ctor, 1, 0.0, admissible=False)
        out.sample = {'kind': 'dm', 'fn': fn, 'd': d, 'grid': make_grid(lo, hi, [t, 0.0], case['nuni'])[:8]}
    elif fn == 'mixed':
        key0 = 'dm/maximally_mixed_state'
        for d in range(1, case['dmax'] + 1):
            for tname, dd in int_variants(d):
                out.state()
                ok, rho = call(out, key0, S.maximally_mixed_state, dd)
                if not ok or not check_dm(out, key0, rho, d * d, d=d, argtype=tname):
                    continue
                if np.abs(rho - np.eye(d * d) / (d * d)).max() > TOL_VEC:
                    out.violation(key0 + '/wrong_state', 'not identity/d^2', d=d)
                out.outcome(('mixed', rho), nontrivial=d > 1)
                if tname == 'int':
                    record_small_int(out, 'maximally_mixed_state', S.maximally_mixed_state, d, d * d, rho)
        out.sample = {'kind': 'dm', 'fn': 'maximally_mixed_state', 'd': 2, 'expected_trace': 1}
    elif fn == 'Antoine':
        key0 = 'dm/get_2qutrit_Antoine2022'
        bandp = 4 * tol_eig(9) * 21
        grid = make_grid(-2.5, 2.5, [-1.5, -0.5, 0.0, 0.5, 1.5], case['nuni'])
        orient = set()
        for q in grid:
            for tname, qq in float_variants(q) + ([('int', int(q))] if float(q).is_integer() else []):
                out.state()
                ok, rho = call(out, key0, S.get_2qutrit_Antoine2022, qq)
                if not ok or not check_dm(out, key0, rho, 9, q=q, argtype=tname):
                    continue
                lam = min(min_eig(ref_pt(rho, (3, 3), (1,))), min_eig(ref_pt(rho, (3, 3), (0,))))
                if abs(q) <= 1.5 - bandp and lam < -tol_eig(9):
                    out.violation(key0 + '/npt_in_documented_ppt_range', '|q|=%r <= 1.5 but the partial transpose has eigenvalue %.3g' % (abs(q), lam), q=q)
                if abs(q) >= 1.5 + bandp and lam >= -tol_eig(9):
                    out.violation(key0 + '/ppt_in_documented_npt_range', '|q|=%r > 1.5 (documented NPT) but the state is PPT' % (abs(q),), q=q)
                # the named object: the Horodecki 1999 family at alpha = 5/2 + q; the docstring classifies by |q| only and q -> -q is the
                # exchange of the two parties, so either orientation is accepted, but the same one for every q
                m = [bool(np.abs(rho - ref_horodecki1999(2.5 + q, sw)).max() <= TOL_VEC) for sw in (False, True)]
                if not any(m):
                    out.violation(key0 + '/wrong_state', 'get_2qutrit_Antoine2022(%r) is not 2/7 |Psi+><Psi+| + alpha/7 sigma_+ + (5-alpha)/7 sigma_- '
                                  'with alpha = 5/2 + q in either party order (deviation %.3g)' % (q, min(np.abs(rho - ref_horodecki1999(2.5 + q, sw)).max() for sw in (False, True))),
                                  q=q, observed=rho, expected=ref_horodecki1999(2.5 + q, True))
                elif m[0] != m[1]:
                    orient.add('sigma_plus_weight_(5/2-q)/7' if m[1] else 'sigma_plus_weight_(5/2+q)/7')
                out.outcome(('Antoine', rho), nontrivial=True)
        for bad in (-2.5 - 1e-9, 2.5 + 1e-9):
            out.state()
            ok, _ = call(out, key0, S.get_2qutrit_Antoine2022, bad, admissible=False)
            if ok:
                out.count('inadmissible_accepted')
        if len(orient) > 1:
            out.violation(key0 + '/inconsistent_party_order', 'the weights of sigma_+ / sigma_- are exchanged for some q only', orientations=sorted(orient))
        out.count('antoine_orientation[%s]' % ','.join(sorted(orient)) if orient else 'antoine_orientation[undetermined]')
        out.trace()
        out.sample = {'kind': 'dm', 'fn': 'get_2qutrit_Antoine2022', 'grid_size': len(grid)}
    elif fn in ('bes2x4', 'bes3x3'):
        dims = (2, 4) if fn == 'bes2x4' else (3, 3)
        D = dims[0] * dims[1]
        name = 'get_%s_Horodecki1997' % fn
        key0 = 'dm/' + name
        ctor = getattr(S, name)
        grid = sorted(set(make_grid(0.0, 1.0, [0.25, 0.5, 0.75], case['nuni']) + [1e-12, 1e-9, 1e-6, 1e-3, 1 - 1e-12, 1 - 1e-9, 1 - 1e-6, 1 - 1e-3]
                          + [float(x) for x in env.rng('C18', fn).uniform(0, 1, size=case['G'])]))
        for a in grid:
            for tname, aa in float_variants(a) + ([('int', int(a))] if float(a).is_integer() else []):
                out.state()
                ok, rho = call(out, key0, ctor, aa)
                if not ok or not check_dm(out, key0, rho, D, a=a, argtype=tname):
                    continue
                for sub in ((1,), (0,)):
                    lam = min_eig(ref_pt(rho, dims, sub))
                    if lam < -tol_eig(D):
                        out.violation(key0 + '/not_ppt', 'parameter %r: partial transpose has eigenvalue %.3g < -%.2g' % (a, lam, tol_eig(D)), a=a, observed=rho)
                # the named object (paper's convex decomposition, explicit |ij><kl| loops). The printed matrix contains sqrt(1 - a^2)/2:
                # a*a carries an absolute rounding error eps/2, which the square root amplifies by 1/(2 sqrt(1 - a^2)); the entry is
                # then divided by 2 (D a + 1):  kappa = 8 + 1/(8 sqrt(1 - a^2) (D a + 1))  (no amplification at a = 1, where 1 - a*a = 0 exactly)
                ref = ref_bes2x4(a) if fn == 'bes2x4' else ref_bes3x3(a)
                kap = 8 + (1 / (8 * math.sqrt(1 - a * a) * ((D - 1) * a + 1)) if a * a < 1 else 0.0)
                dev = float(np.abs(rho - ref).max())
                if dev > C_SAFE * EPS * kap:
                    out.violation(key0 + '/wrong_state', '%s(%r) differs from the state of Horodecki 1997 (convex form of the paper) by %.3g > %.2g' % (name, a, dev, C_SAFE * EPS * kap),
                                  a=a, observed=rho, expected=ref)
                if fn == 'bes3x3':
                    # realignment (computable cross norm) witness: the family is entangled for 0 < a < 1 and the realigned matrix has trace
                    # norm > 1 there (1.0005 .. 1.003 in the bulk, excess ~ 0.05 a and ~ 0.005 (1 - a) at the ends). Singular values are
                    # backward stable: |delta sigma_i| <= D eps ||R||_2 with ||R||_2 <= 1, summed over D of them: kappa = D^2. The dead band
                    # (excess of the reference state below 4 tolerances) is counted, not judged.
                    tol_nuc = C_SAFE * EPS * D * D
                    if 0 < a < 1 and ref_realign_norm(ref, dims) - 1 > 4 * tol_nuc:
                        nuc = ref_realign_norm(rho, dims)
                        out.count('realignment_witness_checked')
                        if not nuc > 1 + tol_nuc:
                            out.violation(key0 + '/realignment_witness_lost', 'parameter %r: trace norm of the realigned matrix is %.17g, must exceed 1 (entangled for 0<a<1)' % (a, nuc),
                                          a=a, observed=rho)
                    else:
                        out.count('realignment_witness_dead_band_or_end_point')
                out.outcome((fn, rho), nontrivial=True)
        for bad in (-1e-9, 1 + 1e-9):
            out.state()
            ok, _ = call(out, key0, ctor, bad, admissible=False)
            if ok:
                out.count('inadmissible_accepted')
        out.sample = {'kind': 'dm', 'fn': name, 'grid_size': len(grid), 'first': grid[:6]}
    else:
        raise ValueError(fn)


# ------------------------------------------------------------------ closed forms of Werner / isotropic states
def as_scalar(v):
    if isinstance(v, (int, float, np.integer, np.floating)):
        return float(v)
    if isinstance(v, np.ndarray) and v.size == 1 and v.dtype.kind in 'fiu':
        return float(v.reshape(-1)[0])
    return None


def run_closed(case, out, env):
    import numqi
    S = numqi.state
    fam, d = case['fam'], case['d']
    D = d * d
    lo, hi, t, tex = family_info(fam, d)
    ctor = getattr(S, fam)
    grid = make_grid(lo, hi, [t, 0.0], case['nuni'])
    phi = ref_maxent(d)
    tol_ree = C_SAFE * EPS * D * 37
    scal = {}
    for a in grid:
        pos = position(a, tex)
        try:
            rho = ctor(d, a)
            assert isinstance(rho, np.ndarray) and rho.shape == (D, D) and np.all(np.isfinite(rho))
        except Exception:
            out.count('constructor_failed(see dm cases)')
            continue
        if fam == 'Werner':
            f = float(np.sum(rho * ref_swap(d).T))
            rfun = {'ree': lambda x: ref_werner_ree_from_pm((1 - x) / 2), 'eof': ref_werner_eof_from_f, 'GME': ref_werner_gme_from_f}
            ovl, olo, ohi = f, -1.0, 1.0
            conc = max(0.0, -f)
        else:
            F = float(phi @ rho @ phi)
            rfun = {'ree': lambda x: ref_iso_ree_from_F(x, d), 'eof': lambda x: ref_iso_eof_from_F(x, d), 'GME': lambda x: ref_iso_gme_from_F(x, d)}
            ovl, olo, ohi = F, 0.0, 1.0
            conc = max(0.0, 2 * F - 1)
        refs = {q: rfun[q](ovl) for q in rfun}
        # conditioning: the closed forms have unbounded slope in the overlap at the pure end point (sqrt(1 - f^2)) and at the threshold
        # (x log x); alpha and the overlap carry a few ulp of rounding, so kappa is the variation of the reference over +-DELTA_OVL
        cond = {q: max(abs(rfun[q](min(ohi, ovl + DELTA_OVL)) - refs[q]), abs(rfun[q](max(olo, ovl - DELTA_OVL)) - refs[q])) for q in rfun}
        for q in ('ree', 'eof', 'GME'):
            name = 'get_%s_%s' % (fam, q)
            key0 = 'closed/' + name
            for tname, aa in float_variants(a):
                out.state()
                ok, v = call(out, key0, getattr(S, name), d, aa)
                if not ok:
                    continue
                x = as_scalar(v)
                if x is None:
                    out.violation(key0 + '/not_scalar', 'returned %s for a scalar alpha' % type(v).__name__, d=d, alpha=a)
                    continue
                if tname == 'float':
                    scal[(q, a)] = x
                if not math.isfinite(x):
                    where = 'just_above_threshold' if fractions.Fraction(float(a)) > tex else 'in_separable_range'
                    out.violation('%s/nonfinite_%s' % (key0, where),
                                  '%s(%d, %r) = %r; the exact value is %.3g (alpha - threshold = %.3g)' % (name, d, a, x, refs[q], a - t),
                                  d=d, alpha=a, expected=refs[q])
                    continue
                tol = (tol_ree if q == 'ree' else TOL_CLOSED) + cond[q]
                if pos == 'below':
                    if x != 0:
                        out.violation(key0 + '/nonzero_in_separable_range', '%s(%d, %r) = %r, must vanish exactly for alpha <= %s' % (name, d, a, x, tex), d=d, alpha=a)
                elif pos == 'band':
                    if abs(x) > tol:
                        out.violation(key0 + '/nonzero_at_threshold', '%s(%d, %r) = %r at the separability threshold' % (name, d, a, x), d=d, alpha=a)
                else:
                    if abs(x - refs[q]) > tol * max(1.0, abs(refs[q])):
                        out.violation(key0 + '/wrong_value', '%s(%d, %r) = %.17g, literature formula on the measured overlap gives %.17g' % (name, d, a, x, refs[q]),
                                      d=d, alpha=a, observed=x, expected=refs[q])
                    if x < -tol:
                        out.violation(key0 + '/negative', '%s(%d, %r) = %r < 0' % (name, d, a, x), d=d, alpha=a)
                out.outcome((name, d, x), nontrivial=x != 0)
        # generic routines (property: "agree with the generic routines elsewhere")
        if pos == 'above' and ('ree', a) in scal and math.isfinite(scal[('ree', a)]):
            out.trans()
            try:
                g = float(numqi.utils.get_relative_entropy(rho, ctor(d, t)))
                if not math.isfinite(g):
                    out.violation('closed/get_relative_entropy/nonfinite', 'relative entropy to the boundary state is %r' % g, fam=fam, d=d, alpha=a)
                elif abs(g - scal[('ree', a)]) > tol_ree * max(1.0, abs(g)):
                    out.violation('closed/get_%s_ree/differs_from_get_relative_entropy' % fam, 'closed form %.17g, generic %.17g' % (scal[('ree', a)], g), d=d, alpha=a)
                out.trace()
            except Exception as e:
                out.violation('closed/get_relative_entropy/%s' % type(e).__name__, repr(e)[:200], fam=fam, d=d, alpha=a)
        if fam == 'Isotropic' and a == hi and ('eof', a) in scal and math.isfinite(scal[('eof', a)]):
            # pure end point alpha = 1, every d: the only generic (deterministic) routine for d >= 3 is get_eof_pure on the ket.
            # entropy of the reduced state through eigvalsh: eigenvalue error d eps, |d(-x log x)| <= (1 + log d) per eigenvalue, d of them
            out.trans()
            try:
                w, V = np.linalg.eigh((rho + rho.conj().T) / 2)
                g = float(numqi.entangle.get_eof_pure(V[:, -1].reshape(d, d)))
                tolp = C_SAFE * EPS * d * d * (1 + math.log(d)) + TOL_CLOSED
                if not math.isfinite(g):
                    out.count('generic_routine_nonfinite[get_eof_pure] (C05/C13 territory)')
                elif abs(w[-1] - 1) > tol_eig(D):
                    out.violation('dm/Isotropic/not_pure_at_alpha_1', 'Isotropic(%d, 1) has largest eigenvalue %.17g' % (d, w[-1]), d=d)
                elif abs(g - scal[('eof', a)]) > tolp:
                    out.violation('closed/get_Isotropic_eof/differs_from_get_eof_pure', 'closed form %.17g at alpha=1, get_eof_pure(ket) = %.17g' % (scal[('eof', a)], g), d=d, alpha=a)
                out.count('eof_pure_end_point_checked')
                out.trace()
            except Exception as e:
                out.violation('closed/get_eof_pure/%s' % type(e).__name__, repr(e)[:200], fam=fam, d=d, alpha=a)
        if d == 2 and pos != 'band':
            for q, gname, gfun, rfun in (('eof', 'get_eof_2qubit', numqi.entangle.get_eof_2qubit, ref_conc_to_eof),
                                         ('GME', 'get_gme_2qubit', numqi.entangle.get_gme_2qubit, ref_conc_to_gme)):
                if (q, a) not in scal or not math.isfinite(scal[(q, a)]):
                    continue
                out.trans()
                try:
                    g = float(gfun(rho))
                except Exception as e:
                    out.violation('closed/%s/%s' % (gname, type(e).__name__), repr(e)[:200], fam=fam, alpha=a)
                    continue
                if not math.isfinite(g):
                    out.count('generic_routine_nonfinite[%s] (C05/C13 territory)' % gname)
                    continue
                tolg = variation(rfun, conc, DELTA_C) + TOL_CLOSED
                if abs(g - scal[(q, a)]) > tolg:
                    out.violation('closed/get_%s_%s/differs_from_%s' % (fam, q, gname),
                                  'closed form %.17g, %s(rho) = %.17g (tolerance %.3g, concurrence %.6g)' % (scal[(q, a)], gname, g, tolg, conc), d=d, alpha=a)
                out.trace()
    # array evaluation == scalar evaluation (eof, GME document np.ndarray arguments)
    arr = np.array(grid)
    for q in ('eof', 'GME'):
        name = 'get_%s_%s' % (fam, q)
        key0 = 'closed/' + name
        exp = np.array([scal.get((q, a), np.nan) for a in grid])
        shapes = [(len(grid),), (1, len(grid)), (len(grid), 1)] + ([(2, len(grid) // 2)] if len(grid) % 2 == 0 else [(1, 1, len(grid))])
        for shp in shapes:
            out.state()
            ok, v = call(out, key0, getattr(S, name), d, arr.reshape(shp))
            if not ok:
                continue
            if not (isinstance(v, np.ndarray) and v.shape == shp):
                out.violation(key0 + '/array_shape', 'array alpha of shape %s gave %s' % (shp, getattr(v, 'shape', type(v).__name__)), d=d)
                continue
            vv = v.reshape(-1).astype(np.float64)
            bad = [i for i in range(len(grid)) if not ((np.isnan(vv[i]) and np.isnan(exp[i])) or abs(vv[i] - exp[i]) <= TOL_CLOSED)]
            if bad:
                out.violation(key0 + '/array_differs_from_scalar', 'array evaluation differs from scalar evaluation at alpha=%r: %r vs %r' % (grid[bad[0]], vv[bad[0]], exp[bad[0]]),
                              d=d, alpha=grid[bad[0]])
            zero_where = [i for i, a in enumerate(grid) if position(a, tex) == 'below']
            if any(vv[i] != 0 for i in zero_where):
                i = [i for i in zero_where if vv[i] != 0][0]
                out.violation(key0 + '/array_nonzero_in_separable_range', 'array evaluation gives %r at alpha=%r' % (vv[i], grid[i]), d=d, alpha=grid[i])
            out.trace()
    out.sample = {'kind': 'closed', 'fam': fam, 'd': d, 'threshold': t, 'grid_size': len(grid)}


# ------------------------------------------------------------------ unextendible product bases
def ref_product(local):
    """rows: kron of the local rows"""
    N = local[0].shape[0]
    rows = []
    for j in range(N):
        v = np.ones(1, dtype=np.complex128)
        for A in local:
            v = np.kron(v, A[j].astype(np.complex128))
        rows.append(v)
    return np.stack(rows)


def distinct_directions(V, tol=1e-9):
    """group parallel rows: returns list of (representative unit vector, bitmask of member rows)"""
    groups = []
    for j, v in enumerate(V):
        v = v / np.linalg.norm(v)
        for g in groups:
            if abs(abs(np.vdot(g[0], v)) - 1) < tol:
                g[1] |= 1 << j
                break
        else:
            groups.append([v, 1 << j])
    return groups


def deficient_sets(V, limit=60000):
    """all maximal index sets S (bitmasks) with rank(V[S]) < d, by enumerating the flats spanned by d-1 distinct directions.
    Returns (list of masks, ambiguous flag) or (None, False) when the enumeration exceeds `limit` subsets."""
    N, d = V.shape
    groups = distinct_directions(V)
    m = len(groups)
    allmask = (1 << N) - 1
    if m <= d - 1:
        return [allmask], False
    if math.comb(m, d - 1) > limit:
        return None, False
    R = np.stack([g[0] for g in groups])
    masks = set()
    ambiguous = False
    for T in itertools.combinations(range(m), d - 1):
        B = R[list(T)]
        u, s, vh = np.linalg.svd(B, full_matrices=True)
        if np.any((s > 1e-11) & (s < 1e-7)):
            ambiguous = True
        r = int(np.sum(s > 1e-9))
        basis = vh[:r]                         # orthonormal basis of span(T) (row space)
        # membership of R[k] in span(T): project on the row space of B
        proj = (R @ basis.conj().T) @ basis
        rn = np.linalg.norm(R - proj, axis=1)
        if np.any((rn > 1e-11) & (rn < 1e-7)):
            ambiguous = True
        mk = 0
        for k in range(m):
            if rn[k] < 1e-9:
                mk |= groups[k][1]
        masks.add(mk)
    masks = sorted(masks, key=lambda x: -bin(x).count('1'))
    maximal = []                                # (mask, popcount); a set can only be contained in a strictly larger one
    for mk in masks:
        pc = bin(mk).count('1')
        if not any((mk | M) == M for M, c in maximal if c > pc):
            maximal.append((mk, pc))
    return [M for M, c in maximal], ambiguous


def flat_cost(V):
    m = len(distinct_directions(V))
    d = V.shape[1]
    return 0 if m <= d - 1 else math.comb(m, d - 1)


def is_extendible(local):
    """exact criterion: a product vector orthogonal to all members exists iff the members can be distributed over the parties
    such that every party's share is rank deficient. The party with the most expensive flat enumeration is treated last: its share
    is whatever remains, and its rank is computed directly. Returns (True/False/None, witness, ambiguous)."""
    N = local[0].shape[0]
    loc = [np.asarray(A, dtype=np.complex128) for A in local]
    costs = [flat_cost(A) for A in loc]
    last = int(np.argmax(costs))
    fams = {}
    amb = [False]
    for i, A in enumerate(loc):
        if i == last:
            continue
        ms, a = deficient_sets(A)
        if ms is None:
            return None, None, False
        amb[0] |= a
        fams[i] = ms
    order = sorted(fams, key=lambda i: len(fams[i]))
    memo = {}
    lastmemo = {}

    def last_deficient(remaining):
        if remaining not in lastmemo:
            idx = [j for j in range(N) if (remaining >> j) & 1]
            if len(idx) < loc[last].shape[1]:
                lastmemo[remaining] = True
            else:
                sv = np.linalg.svd(loc[last][idx], compute_uv=False)
                smin = sv[loc[last].shape[1] - 1]
                if 1e-11 < smin < 1e-7:
                    amb[0] = True
                lastmemo[remaining] = bool(smin < 1e-9)
        return lastmemo[remaining]

    def cover(pi, remaining):
        if remaining == 0:
            return []
        if pi == len(order):
            return [(last, remaining)] if last_deficient(remaining) else None
        k = (pi, remaining)
        if k in memo:
            return memo[k]
        ret = None
        for M in fams[order[pi]] + [0]:
            r = cover(pi + 1, remaining & ~M)
            if r is not None:
                ret = [(order[pi], M)] + r
                break
        memo[k] = ret
        return ret
    w = cover(0, (1 << N) - 1)
    return (w is not None), w, amb[0]


def alphabet_extension(local, prod):
    """weak test: some product of local alphabet vectors (members' local vectors + computational basis) orthogonal to all members?"""
    alph = []
    for A in local:
        d = A.shape[1]
        vs = [g[0] for g in distinct_directions(np.asarray(A, dtype=np.complex128))] + [np.eye(d, dtype=np.complex128)[k] for k in range(d)]
        alph.append(np.stack(vs))
    if np.prod([len(a) for a in alph]) > 200000:
        return None
    # overlaps <member_j | a_1 x a_2 ...> = prod_i <A_i[j] | a_i>
    ov = None
    for A, al in zip(local, alph):
        o = np.asarray(A, dtype=np.complex128).conj() @ al.T      # (N, m_i)
        ov = o if ov is None else (ov[:, :, None] * o[:, None, :]).reshape(o.shape[0], -1)
    worst = np.abs(ov).max(axis=0)
    k = int(np.argmin(worst))
    return float(worst[k])


def upb_configs(tier):
    quick = tier == 'quick'
    cfg = [('tiles', None), ('pyramid', None), ('feng4x4', None), ('min4x4', None), ('feng2x2x2x2', None)]
    cfg += [('quadres', x) for x in ((3, 7, 9) if quick else (3, 7, 9, 15, 19, 21))]
    cfg += [('genshifts', x) for x in ((3, 5, 7) if quick else (3, 5, 7, 9))]
    cfg += [('gentiles1', x) for x in ((4, 6) if quick else (4, 6, 8, 10))]
    dmax = 6 if quick else 9
    cfg += [('gentiles2', (a, b)) for b in range(4, dmax + 1) for a in range(3, b + 1)]
    return cfg


UPB_INADMISSIBLE = [('quadres', 4), ('quadres', 5), ('quadres', 1), ('genshifts', 2), ('genshifts', 4), ('gentiles1', 2), ('gentiles1', 5),
                    ('gentiles2', (2, 4)), ('gentiles2', (4, 3)), ('gentiles2', (3, 3)), ('john2^8', None), ('nosuchkind', None)]


def check_upb(out, numqi, kind, args, tag, local, bes, full):
    """oracle on one (local vector lists, BES). `full` switches on the expensive parts (all bipartitions, unextendibility)."""
    key0 = 'upb/load_upb/%s' % kind
    det = {'kind': kind, 'args': arr_detail(args) if args is not None else None}
    if not (isinstance(local, (list, tuple)) and len(local) >= 2 and all(isinstance(x, np.ndarray) and x.ndim == 2 for x in local)):
        out.violation(key0 + '/shape', 'load_upb did not return a list of >= 2 two-dimensional arrays', **det)
        return None
    N = local[0].shape[0]
    dims = [x.shape[1] for x in local]
    D = int(np.prod(dims))
    if any(x.shape[0] != N for x in local):
        out.violation(key0 + '/shape', 'parties have different numbers of states %s' % ([x.shape for x in local],), **det)
        return None
    if not all(np.all(np.isfinite(x)) for x in local):
        out.violation(key0 + '/nonfinite', 'NaN/Inf in the local vectors', **det)
        return None
    kap = sum(dd + 2 for dd in dims)
    tolg = C_SAFE * EPS * kap
    for i, x in enumerate(local):
        nr = np.linalg.norm(x, axis=1)
        if np.abs(nr - 1).max() > tolg:
            out.violation(key0 + '/local_vector_not_normalized', 'party %d, state %d has norm %.17g' % (i, int(np.argmax(np.abs(nr - 1))), nr[int(np.argmax(np.abs(nr - 1)))]), **det)
    P = ref_product(local)
    G = P.conj() @ P.T
    if np.abs(G - np.eye(N)).max() > tolg:
        a, b = np.unravel_index(int(np.argmax(np.abs(G - np.eye(N)))), G.shape)
        out.violation(key0 + '/not_orthonormal', 'product vectors %d and %d have inner product %.3g' % (a, b, abs(G[a, b] - (a == b))), **det)
        return P
    if N >= D:
        out.violation(key0 + '/complete_basis', '%d orthonormal product vectors in dimension %d leave no complement' % (N, D), **det)
        return P
    if bes is not None:
        ref = (np.eye(D) - P.T @ P.conj()) / (D - N)
        if check_dm(out, key0 + '/bes', bes, D, **det):
            if np.abs(bes - ref).max() > C_SAFE * EPS * (N + 2) / (D - N) * 4:
                out.violation(key0 + '/bes_not_complementary_projector', 'BES differs from (1 - sum|v><v|)/(D-N) by %.3g' % np.abs(bes - ref).max(), **det)
            ev = np.linalg.eigvalsh((bes + bes.conj().T) / 2) * (D - N)
            rank = int(np.sum(ev > 0.5))
            te = tol_eig(D) + tolg * N
            if rank != D - N or np.abs(ev[ev > 0.5] - 1).max() > te or np.abs(ev[ev <= 0.5]).max() > te:
                out.violation(key0 + '/bes_rank', 'BES has rank %d (spectrum not {0,1}/(D-N)), expected D-|UPB| = %d' % (rank, D - N), **det)
            if np.abs(bes @ P.T).max() > te:
                out.violation(key0 + '/bes_not_orthogonal_to_upb', 'BES does not annihilate the UPB members', **det)
            subs = bipartitions(len(dims)) if (full and len(dims) <= 9) else [(i,) for i in range(1, len(dims))]
            for sub in subs:
                lam = min_eig(ref_pt(bes, dims, sub))
                out.count('partial_transposes_checked')
                if lam < -tol_eig(D, 1.0 / (D - N)) - tolg:
                    out.violation(key0 + '/bes_not_ppt', 'partial transpose over parties %s has eigenvalue %.3g' % (list(sub), lam), parties=list(sub), **det)
                    break
    if full:
        ext, wit, amb = is_extendible(local)
        if amb:
            out.count('undecided_rank_in_unextendibility')
        if ext is None:
            out.count('unextendibility_alphabet_only')
            w = alphabet_extension(local, P)
            if w is not None and w < 1e-9:
                out.violation(key0 + '/extendible_by_alphabet_vector', 'a product of local alphabet vectors is orthogonal to every member (max overlap %.3g)' % w, **det)
        else:
            out.count('unextendibility_exact')
            if ext and not amb:
                out.violation(key0 + '/extendible', 'the product basis is extendible: shares %s are all rank deficient' % ([(p, bin(m)) for p, m in wit],), **det)
    return P


def check_upb_entry_points(out, numqi, local, pr, bes, **det):
    """numqi.entangle.get_upb_product / upb_to_bes called directly (product form and list form) against what load_upb returned
    with return_product / return_bes. Tolerance as for the BES in check_upb: (N + 2) terms per entry, normalised by D - N."""
    E = numqi.entangle
    N, D = (pr.shape if isinstance(pr, np.ndarray) and pr.ndim == 2 else ref_product(local).shape)
    tolb = C_SAFE * EPS * (N + 2) / (D - N) * 4
    out.state()
    ok, gp = call(out, 'upb/get_upb_product', E.get_upb_product, local, **det)
    if ok:
        if not (isinstance(gp, np.ndarray) and gp.shape == (N, D)):
            out.violation('upb/get_upb_product/shape', 'returned %s, documented (N, prod dims) = %s' % (getattr(gp, 'shape', type(gp).__name__), (N, D)), **det)
        elif isinstance(pr, np.ndarray) and pr.shape == gp.shape and np.abs(gp - pr).max() > C_SAFE * EPS * 4:
            out.violation('upb/get_upb_product/differs_from_return_product', 'get_upb_product(load_upb(..)) differs from load_upb(.., return_product=True) by %.3g' % np.abs(gp - pr).max(), **det)
        elif np.abs(gp - ref_product(local)).max() > C_SAFE * EPS * 4:
            out.violation('upb/get_upb_product/not_kron', 'differs from the Kronecker products of the local vectors by %.3g' % np.abs(gp - ref_product(local)).max(), **det)
    forms = [('list_form', local)] + ([('product_form', pr)] if isinstance(pr, np.ndarray) and pr.ndim == 2 else [])
    for fname, arg in forms:
        out.state()
        ok, b2 = call(out, 'upb/upb_to_bes', E.upb_to_bes, arg, form=fname, **det)
        if not ok:
            continue
        if not (isinstance(b2, np.ndarray) and b2.shape == (D, D) and np.all(np.isfinite(b2))):
            out.violation('upb/upb_to_bes/shape', '%s: returned %s, expected a finite (%d,%d) array' % (fname, getattr(b2, 'shape', type(b2).__name__), D, D), **det)
        elif np.abs(b2 - bes).max() > tolb:
            out.violation('upb/upb_to_bes/%s_differs_from_return_bes' % fname, 'upb_to_bes(%s) differs from load_upb(.., return_bes=True) by %.3g' % (fname, np.abs(b2 - bes).max()), **det)
        else:
            out.count('upb_entry_point_agrees[%s]' % fname)
    out.trace()


def run_upb(case, out, env):
    import numqi
    load = numqi.entangle.load_upb
    kind, args = case['upb'], case['args']
    if isinstance(args, list):
        args = tuple(args)
    if case.get('inadmissible'):
        out.state()
        ok, r = call(out, 'upb/load_upb/%s' % kind, lambda: load(kind, args), admissible=False)
        if ok:
            out.count('inadmissible_accepted')
            out.outcome(('inadmissible', kind, repr(args)), nontrivial=False)
        return
    key0 = 'upb/load_upb/%s' % kind
    det = {'kind': kind, 'args': args}
    base = None
    for spelling in (kind, kind.upper(), kind.capitalize()):
        avars = [args] if args is None else ([args, np.int64(args)] if isinstance(args, int) else [args, list(args), np.array(args)])
        if args is not None and spelling == kind:
            avars.append(np.int32(args) if isinstance(args, int) else tuple(np.int32(x) for x in args))
        for avar in avars:
            res = {}
            for rp in (False, True):
                for rb in (False, True):
                    out.state()
                    ok, r = call(out, key0, lambda: load(spelling, avar, return_product=rp, return_bes=rb), **det)
                    if ok:
                        res[(rp, rb)] = r
            if len(res) < 4:
                continue
            local = res[(False, False)]
            first = base is None
            P = check_upb(out, numqi, kind, args, spelling, local, res[(False, True)][1] if isinstance(res[(False, True)], tuple) and len(res[(False, True)]) == 2 else None, full=first)
            if not (isinstance(res[(False, True)], tuple) and len(res[(False, True)]) == 2):
                out.violation(key0 + '/return_bes_shape', 'return_bes=True did not return (upb, bes)', **det)
                continue
            if P is None:
                continue
            # option path: list -> product -> bes must describe the same object
            l2, bes = res[(False, True)]
            if not (len(l2) == len(local) and all(np.array_equal(a, b) for a, b in zip(l2, local))):
                out.violation(key0 + '/return_bes_changes_upb', 'the UPB returned with return_bes=True differs', **det)
            pr = res[(True, False)]
            if not (isinstance(pr, np.ndarray) and pr.shape == P.shape):
                out.violation(key0 + '/return_product_shape', 'return_product=True gave %s, documented (N, prod dims) = %s' % (getattr(pr, 'shape', type(pr).__name__), P.shape), **det)
            elif np.abs(pr - P).max() > C_SAFE * EPS * 4:
                out.violation(key0 + '/return_product_not_kron', 'return_product=True differs from the Kronecker products of the local vectors by %.3g' % np.abs(pr - P).max(), **det)
            pb = res[(True, True)]
            if not (isinstance(pb, tuple) and len(pb) == 2 and isinstance(pb[0], np.ndarray) and np.array_equal(pb[0], pr) and np.array_equal(pb[1], bes)):
                out.violation(key0 + '/return_product_and_bes_inconsistent', 'return_product=True,return_bes=True differs from the separate calls', **det)
            if spelling == kind and isinstance(bes, np.ndarray) and bes.shape == (P.shape[1], P.shape[1]):
                check_upb_entry_points(out, numqi, local, pr, bes, **det)
            if first:
                base = (local, bes)
                out.outcome(('upb', kind, repr(args), bes), nontrivial=True)
            else:
                if not (all(np.array_equal(a, b) for a, b in zip(base[0], local)) and np.array_equal(base[1], bes)):
                    out.violation(key0 + '/spelling_or_argtype_changes_result', 'kind=%r args=%r gives a different UPB than kind=%r' % (spelling, avar, kind), **det)
            out.trace()
    if args is None and base is not None:
        # default argument: load_upb(kind) without `args` for the size-free kinds
        for rb in (False, True):
            out.state()
            ok, r = call(out, key0, lambda: load(kind, return_bes=rb), **det)
            if not ok:
                continue
            l3 = r[0] if rb else r
            same = isinstance(l3, (list, tuple)) and len(l3) == len(base[0]) and all(isinstance(a, np.ndarray) and np.array_equal(a, b) for a, b in zip(l3, base[0]))
            if rb:
                same = same and isinstance(r, tuple) and len(r) == 2 and isinstance(r[1], np.ndarray) and np.array_equal(r[1], base[1])
            if not same:
                out.violation(key0 + '/default_args_differs', 'load_upb(%r, return_bes=%r) without args differs from args=None' % (kind, rb), **det)
            out.count('default_argument_call')
        out.trace()
    out.sample = {'kind': 'upb', 'upb': kind, 'args': args}


SIX_GT = [math.pi / 6, math.pi / 3, 2 * math.pi / 3, 1.0, 5.5]
SIX_PHI = [0.0, math.pi / 2, math.pi, 2.0]


def run_sixparam(case, out, env):
    import numqi
    load = numqi.entangle.load_upb
    key0 = 'upb/load_upb/sixparam'
    gt = SIX_GT[:case['ngt']]
    ph = SIX_PHI[:case['nphi']]
    gA, tA = case['gA'], case['tA']
    nfull = 0
    for pA in ph:
        for gB in gt:
            for tB in gt:
                for pB in ph:
                    para = (gA, tA, pA, gB, tB, pB)
                    out.state()
                    ok, r = call(out, key0, lambda: load('sixparam', para, return_bes=True), para=list(para))
                    if not ok:
                        continue
                    full = nfull < 4 or (pA, pB) == (ph[-1], ph[-1])
                    nfull += 1
                    if not (isinstance(r, tuple) and len(r) == 2):
                        out.violation(key0 + '/return_bes_shape', 'return_bes=True did not return (upb, bes)', para=list(para))
                        continue
                    check_upb(out, numqi, 'sixparam', para, 'sixparam', r[0], r[1], full=True)
                    out.outcome(('sixparam', r[1]), nontrivial=True)
                    if full and isinstance(r[1], np.ndarray) and r[1].shape == (9, 9):
                        check_upb_entry_points(out, numqi, r[0], None, r[1], para=list(para))
                    if full:
                        out.state()
                        ok, r2 = call(out, key0, lambda: load('sixparam', np.array(para), return_bes=True, ignore_warning=True), para=list(para))
                        if ok and not (np.array_equal(r2[1], r[1])):
                            out.violation(key0 + '/ignore_warning_changes_result', 'ignore_warning=True changes the BES', para=list(para))
                        out.trace()
    if case.get('entropy'):
        for stream in (0, 1):
            out.state()
            with seams.EntropySeam(stream) as seam:
                ok, r = call(out, key0, lambda: load('sixparam', None, return_bes=True, ignore_warning=True), fresh=False)  # random by contract
            if not ok:
                continue
            if len(seam.hits) != 1:
                out.violation(key0 + '/args_None_entropy_draws', 'args=None drew %d unseeded generators, expected 1' % len(seam.hits), hits=seam.hits)
            check_upb(out, numqi, 'sixparam', 'None(entropy stream %d)' % stream, 'sixparam', r[0], r[1], full=True)
            out.outcome(('sixparam', r[1]), nontrivial=True)
    out.sample = {'kind': 'sixparam', 'para': [gA, tA, ph[0], gt[0], gt[0], ph[0]]}


# ------------------------------------------------------------------ POVMs and measurement bases
def run_tetra(case, out, env):
    import numqi
    n = case['n']
    key0 = 'povm/get_tetrahedron_POVM'
    out.state()
    ok, E = call(out, key0, numqi.utils.get_tetrahedron_POVM, n)
    if not ok:
        return
    ok1, E1 = call(out, key0, numqi.utils.get_tetrahedron_POVM, 1)
    D = 2 ** n
    if not (isinstance(E, np.ndarray) and E.shape == (4 ** n, D, D)):
        out.violation(key0 + '/shape', 'returned %s, documented (%d,%d,%d)' % (getattr(E, 'shape', type(E).__name__), 4 ** n, D, D), n=n)
        return
    if not np.all(np.isfinite(E)):
        out.violation(key0 + '/nonfinite', 'NaN/Inf', n=n)
        return
    tol = C_SAFE * EPS * 4 * n
    if np.abs(E - E.conj().transpose(0, 2, 1)).max() > tol:
        out.violation(key0 + '/not_hermitian', 'an element is not Hermitian', n=n)
    if np.abs(E.sum(axis=0) - np.eye(D)).max() > C_SAFE * EPS * 4 ** n:
        out.violation(key0 + '/not_resolution_of_identity', 'elements sum to a matrix differing from 1 by %.3g' % np.abs(E.sum(axis=0) - np.eye(D)).max(), n=n)
    ev = np.linalg.eigvalsh((E + E.conj().transpose(0, 2, 1)) / 2)
    if ev.min() < -tol_eig(D, 1.0 / D):
        out.violation(key0 + '/element_not_psd', 'element %d has eigenvalue %.3g' % (int(np.argmin(ev.min(axis=1))), ev.min()), n=n)
    # SIC structure: rank one, trace 2^-n, informationally complete
    if np.abs(ev[:, -1] - 1 / D).max() > tol or np.abs(ev[:, :-1]).max() > tol_eig(D, 1.0 / D) + tol:
        out.violation(key0 + '/element_not_rank_one', 'elements are not (1/2^n) x rank-one projectors', n=n)
    M = E.reshape(4 ** n, -1)
    if np.linalg.matrix_rank(M, tol=1e-9 / D) != 4 ** n:
        out.violation(key0 + '/not_informationally_complete', 'the elements do not span the operator space', n=n)
    if n == 1:
        # default argument: get_tetrahedron_POVM() is documented as num_qubit=1
        out.state()
        okd, Ed = call(out, key0, lambda: numqi.utils.get_tetrahedron_POVM())
        if okd:
            if not (isinstance(Ed, np.ndarray) and Ed.shape == E.shape and np.abs(Ed - E).max() <= tol):
                out.violation(key0 + '/default_differs', 'get_tetrahedron_POVM() differs from get_tetrahedron_POVM(1)', observed=arr_detail(Ed))
            out.count('default_argument_call')
    if n == 1:
        sig = [np.array([[0, 1], [1, 0]]), np.array([[0, -1j], [1j, 0]]), np.array([[1, 0], [0, -1]])]
        blo = np.array([[np.trace(E[i] @ s).real * 2 for s in sig] for i in range(4)])   # E = (1 + n.sigma)/4 -> Tr(E s) = n/2
        Gm = blo @ blo.T
        exp = np.full((4, 4), -1 / 3) + np.eye(4) * 4 / 3
        if np.abs(Gm - exp).max() > tol * 4:
            out.violation(key0 + '/not_regular_tetrahedron', 'Bloch vectors are not a regular tetrahedron (Gram deviates by %.3g)' % np.abs(Gm - exp).max(), observed=blo)
    elif ok1 and isinstance(E1, np.ndarray) and E1.shape == (4, 2, 2):
        seen = set()
        for idx in itertools.product(range(4), repeat=n):
            K = np.ones((1, 1), dtype=np.complex128)
            for i in idx:
                K = np.kron(K, E1[i])
            dist = np.abs(E - K[None]).reshape(4 ** n, -1).max(axis=1)
            j = int(np.argmin(dist))
            if dist[j] > tol:
                out.violation(key0 + '/missing_product_element', 'the Kronecker product of single-qubit elements %s is not an element' % (idx,), n=n, index=list(idx))
                break
            seen.add(j)
        else:
            if len(seen) != 4 ** n:
                out.violation(key0 + '/duplicate_elements', 'only %d distinct product elements among %d' % (len(seen), 4 ** n), n=n)
        out.trace()
    # numpy integer types for num_qubit: same object as for the python int
    for tname, nn in int_variants(n)[1:]:
        out.state()
        okv, Ev = call(out, key0, numqi.utils.get_tetrahedron_POVM, nn)
        if okv and not (isinstance(Ev, np.ndarray) and Ev.shape == E.shape and np.array_equal(Ev, E)):
            out.violation(key0 + '/argtype_changes_result', 'num_qubit=%s(%d) gives a different result than the python int' % (tname, n), n=n, argtype=tname)
    record_small_int(out, 'get_tetrahedron_POVM', numqi.utils.get_tetrahedron_POVM, n, 4 ** n, E)
    out.outcome(('tetra', n, E), nontrivial=True)
    out.sample = {'kind': 'tetra', 'n': n}


def ref_cheb_rows(d, nroot, alpha):
    """rows j: (c_k cos(k theta_j) e^{i alpha k})_k / sqrt(nroot), theta_j = pi (j + 1/2)/nroot, c_0 = 1, c_k = sqrt 2"""
    th = np.pi * (np.arange(nroot) + 0.5) / nroot
    k = np.arange(d)
    c = np.where(k == 0, 1.0, math.sqrt(2))
    return (np.cos(th[:, None] * k[None, :]) * c * np.exp(1j * alpha * k)) / math.sqrt(nroot)


def run_cheb(case, out, env):
    import numqi
    fn = numqi.unique_determine.get_chebshev_orthonormal
    d = case['d']
    key0 = 'povm/get_chebshev_orthonormal'
    alphas = [0.0, 1e-3, math.pi / 4, 1.0, math.pi / 2, 2 * math.pi / 3, math.pi, -0.7, 2 * math.pi, 10.0]
    alphas += [float(x) for x in env.rng('C18', 'cheb', d).uniform(0, math.pi, size=case['G'])]
    tol = C_SAFE * EPS * d * 2
    for al in alphas:
        for tname, aa in float_variants(al)[:(2 if al in (0.0, 1.0) else 1)]:
            for wc in (False, True):
                det = {'d': d, 'alpha': al, 'with_computational_basis': wc}
                nb = 5 if wc else 4
                out.state()
                ok, r = call(out, key0, lambda: fn(d, aa, with_computational_basis=wc, return_basis=True), **det)
                out.state()
                ok2, r0 = call(out, key0, lambda: fn(d, aa, with_computational_basis=wc), **det)
                if not (ok and ok2):
                    continue
                if not (isinstance(r, tuple) and len(r) == 2):
                    out.violation(key0 + '/return_basis_shape', 'return_basis=True did not return (projectors, basis_list)', **det)
                    continue
                proj, bl = r
                if not (isinstance(proj, np.ndarray) and proj.shape == (nb * d, d, d)):
                    out.violation(key0 + '/shape', 'projector array has shape %s, documented (%d,%d,%d)' % (getattr(proj, 'shape', None), nb * d, d, d), **det)
                    continue
                if not (isinstance(r0, np.ndarray) and r0.shape == proj.shape and np.array_equal(r0, proj)):
                    out.violation(key0 + '/return_basis_changes_projectors', 'projectors differ between return_basis=False and True', **det)
                if not (isinstance(bl, (list, tuple)) and len(bl) == nb and all(isinstance(b, np.ndarray) and b.shape == (d, d) for b in bl)):
                    out.violation(key0 + '/basis_list_shape', 'basis list is not %d arrays of shape (%d,%d)' % (nb, d, d), **det)
                    continue
                if not (np.all(np.isfinite(proj)) and all(np.all(np.isfinite(b)) for b in bl)):
                    out.violation(key0 + '/nonfinite', 'NaN/Inf', **det)
                    continue
                for bi, B in enumerate(bl):
                    B = B.astype(np.complex128)
                    if np.abs(B @ B.conj().T - np.eye(d)).max() > tol:
                        out.violation(key0 + '/basis_not_orthonormal', 'basis %d is not orthonormal (deviation %.3g)' % (bi, np.abs(B @ B.conj().T - np.eye(d)).max()), basis=bi, **det)
                    blk = proj[bi * d:(bi + 1) * d]
                    if np.abs(blk.sum(axis=0) - np.eye(d)).max() > tol:
                        out.violation(key0 + '/block_not_resolution_of_identity', 'projectors of basis %d sum to a matrix differing from 1 by %.3g' % (bi, np.abs(blk.sum(axis=0) - np.eye(d)).max()), basis=bi, **det)
                    exp = B[:, :, None] * B[:, None, :].conj()
                    if np.abs(blk - exp).max() > tol:
                        out.violation(key0 + '/projector_not_outer_product_of_basis_row', 'projectors of basis %d are not |row><row| of the returned basis' % bi, basis=bi, **det)
                # the named object: Chebyshev polynomials at the zeros of T_d / T_{d-1}
                refs = [ref_cheb_rows(d, d, 0.0), None, ref_cheb_rows(d, d, al), None]
                for bi, a_ in ((1, 0.0), (3, al)):
                    last = np.zeros((1, d), dtype=np.complex128)
                    last[0, d - 1] = 1
                    refs[bi] = np.concatenate([ref_cheb_rows(d, d - 1, a_), last], axis=0)
                if wc:
                    refs.append(np.eye(d))
                for bi in range(nb):
                    B = bl[bi].astype(np.complex128)
                    # rows are defined up to a phase; the last row of bases 1,3 is e_{d-1} (the polynomial of degree d-1 vanishes at the roots)
                    R = refs[bi].copy()
                    if bi in (1, 3):
                        R[:d - 1, d - 1] = B[:d - 1, d - 1] * 0 + R[:d - 1, d - 1]
                    if bi == 4:
                        # the computational basis as a set: every row a distinct basis vector up to a phase (no row order is documented)
                        ab = np.abs(B)
                        if not (np.abs(ab.max(axis=1) - 1).max() <= tol and len(set(np.argmax(ab, axis=1).tolist())) == d and np.abs(ab.sum(axis=1) - 1).max() <= tol * d):
                            out.violation(key0 + '/not_computational_basis', 'with_computational_basis=True: the fifth basis is not the computational basis', basis=bi, **det)
                        continue
                    ph = np.sum(R.conj() * B, axis=1)
                    if np.abs(np.abs(ph) - 1).max() > tol * 4:
                        out.violation(key0 + '/not_chebyshev_basis', 'basis %d is not the Chebyshev-polynomial basis (row overlap %.6g with the cosine formula)' % (bi, np.abs(ph).min()), basis=bi, **det)
                out.outcome(('cheb', d, wc, proj), nontrivial=True)
                out.trace()
                if tname == 'float' and al in (0.0, 1.0):
                    # numpy integer types for dim_qudit: same object as for the python int
                    for iname, dd in int_variants(d)[1:]:
                        out.state()
                        okv, rv = call(out, key0, lambda: fn(dd, aa, with_computational_basis=wc), **det)
                        if okv and not (isinstance(rv, np.ndarray) and rv.shape == proj.shape and np.array_equal(rv, proj)):
                            out.violation(key0 + '/argtype_changes_result', 'dim_qudit=%s(%d) gives a different result than the python int' % (iname, d), argtype=iname, **det)
    out.sample = {'kind': 'cheb', 'd': d, 'alphas': alphas[:4]}


# ------------------------------------------------------------------ closed-form GME of Dicke and W-type states
def run_gme(case, out, env):
    import numqi
    S = numqi.state
    if case['fn'] == 'dicke':
        key0 = 'gme/get_qubit_dicke_state_GME'
        th = np.linspace(0, np.pi / 2, 4001)
        for n in range(1, case['nmax'] + 1):
            for k in range(n + 1):
                out.state()
                ok, v = call(out, key0, S.get_qubit_dicke_state_GME, n, k)
                if not ok:
                    continue
                x = as_scalar(v)
                if x is None or not math.isfinite(x):
                    out.violation(key0 + '/nonfinite', 'get_qubit_dicke_state_GME(%d,%d) = %r' % (n, k, v), n=n, k=k)
                    continue
                # rigorous: every product state bounds the GME from above; symmetric product lattice on the real Dicke ket
                psi = ref_dicke((n - k, k))[0].reshape([2] * n)
                best = 0.0
                amp = math.sqrt(math.comb(n, k)) * np.cos(th) ** (n - k) * np.sin(th) ** k
                best = float(np.max(amp ** 2))
                if x > 1 - best + TOL_CLOSED:
                    out.violation(key0 + '/above_product_state_bound', 'GME(%d,%d) = %.17g exceeds 1 - |<phi^n|D>|^2 = %.17g for a symmetric product state' % (n, k, x, 1 - best), n=n, k=k)
                # lattice spacing h = pi/8000; |d^2/dtheta^2 overlap^2| <= 2 n^2: the lattice maximum is within n^2 h^2 of the symmetric optimum
                h = (np.pi / 2) / 4000
                if x < 1 - best - n * n * h * h - TOL_CLOSED:
                    out.violation(key0 + '/below_symmetric_optimum', 'GME(%d,%d) = %.17g is below 1 - max symmetric overlap = %.17g' % (n, k, x, 1 - best), n=n, k=k)
                if k in (0, n) and x != 0:
                    out.violation(key0 + '/product_state_nonzero', 'Dicke(%d,%d) is a product state but GME = %r' % (n, k, x), n=n, k=k)
                out.outcome(('dickeGME', n, k, x), nontrivial=x != 0)
                for (tname, nn), (_, kk) in zip(int_variants(n)[1:], int_variants(k)[1:]):
                    out.state()
                    okv, vv = call(out, key0, S.get_qubit_dicke_state_GME, nn, kk)
                    if okv and not (as_scalar(vv) is not None and as_scalar(vv) == x):
                        out.violation(key0 + '/argtype_changes_result', 'get_qubit_dicke_state_GME(%d,%d) with %s arguments gives %r, python int gives %r' % (n, k, tname, vv, x), n=n, k=k, argtype=tname)
        out.sample = {'kind': 'gme', 'fn': 'dicke', 'n': 3, 'k': 1, 'expected': 5 / 9}
    else:
        key0 = 'gme/get_Wtype_state_GME'
        K = case['K']
        th = np.linspace(0, np.pi / 2, K)
        c, s = np.cos(th), np.sin(th)
        pts = [p for p in itertools.product(range(4), repeat=3) if any(p)]
        atoms = [tuple(np.abs(env.rng('C18', 'wgme', g).normal(size=3))) for g in range(case['G'])]
        h = (np.pi / 2) / (K - 1)
        for p in pts + atoms:
            v3 = np.array(p, dtype=np.float64)
            v3 = v3 / np.linalg.norm(v3)
            a, b, cc = [float(x) for x in v3]
            out.state()
            ok, v = call(out, key0, S.get_Wtype_state_GME, a, b, cc)
            if not ok:
                continue
            x = as_scalar(v)
            if x is None or not math.isfinite(x):
                out.violation(key0 + '/nonfinite', 'get_Wtype_state_GME%r = %r' % ((a, b, cc), v), abc=[a, b, cc])
                continue
            # overlap of a|100>+b|010>+c|001> with real product states (non-negative amplitudes: real non-negative optimum)
            f = (a * s[:, None, None] * c[None, :, None] * c[None, None, :] + b * c[:, None, None] * s[None, :, None] * c[None, None, :]
                 + cc * c[:, None, None] * c[None, :, None] * s[None, None, :])
            i0 = np.unravel_index(int(np.argmax(f)), f.shape)
            lam2 = float(f[i0] ** 2)
            # polish by alternating maximisation (each step is the exact optimum of one factor): still a rigorous lower bound of the overlap
            psi = np.zeros((2, 2, 2))
            psi[1, 0, 0], psi[0, 1, 0], psi[0, 0, 1] = a, b, cc
            u = [np.array([c[i], s[i]]) for i in i0]
            for _ in range(200):
                for q in range(3):
                    o = [u[j] for j in range(3) if j != q]
                    w = np.tensordot(np.tensordot(np.moveaxis(psi, q, 0), o[0], axes=([1], [0])), o[1], axes=([1], [0]))
                    nw = np.linalg.norm(w)
                    if nw > 0:
                        u[q] = w / nw
            lam2p = float(np.einsum('ijk,i,j,k->', psi, *u) ** 2)
            lam2p = max(lam2p, lam2)
            if x > 1 - lam2p + TOL_CLOSED:
                out.violation(key0 + '/above_product_state_bound', 'GME%r = %.17g exceeds 1 - overlap^2 = %.17g of an explicit product state' % ((a, b, cc), x, 1 - lam2p), abc=[a, b, cc])
            # Hessian of f bounded by 3*sqrt3 in operator norm, |delta|^2 <= 3 (h/2)^2, f <= 1: overlap^2 error <= 2 * 0.5 * 3sqrt3 * 3 h^2/4
            slack = 2 * 0.5 * 3 * math.sqrt(3) * 3 * h * h / 4
            if x < 1 - lam2 - slack - TOL_CLOSED:
                out.violation(key0 + '/below_lattice_optimum', 'GME%r = %.17g is below 1 - (lattice maximum + curvature bound) = %.17g' % ((a, b, cc), x, 1 - lam2 - slack), abc=[a, b, cc])
            # circumradius form of Tamaryan et al.: acute triangle (a,b,c): overlap^2 = 4 R^2, else max(a,b,c)^2
            a2, b2, c2 = a * a, b * b, cc * cc
            if a2 < b2 + c2 and b2 < a2 + c2 and c2 < a2 + b2:
                K16 = 2 * (a2 * b2 + b2 * c2 + c2 * a2) - (a2 * a2 + b2 * b2 + c2 * c2)
                ref = 1 - 4 * a2 * b2 * c2 / K16
                kap = 1 / K16
            else:
                ref = 1 - max(a2, b2, c2)
                kap = 1.0
            if abs(x - ref) > C_SAFE * EPS * 16 * max(1.0, kap):
                out.violation(key0 + '/wrong_value', 'GME%r = %.17g, circumradius formula gives %.17g' % ((a, b, cc), x, ref), abc=[a, b, cc])
            # invariance under permutations and signs
            for perm in itertools.permutations((a, b, cc)):
                for sg in itertools.product((1, -1), repeat=3):
                    out.trans()
                    try:
                        y = float(S.get_Wtype_state_GME(*[pp * ss for pp, ss in zip(perm, sg)]))
                    except Exception as e:
                        out.violation(key0 + '/%s' % type(e).__name__, repr(e)[:100], abc=list(perm), signs=list(sg))
                        continue
                    if not (abs(y - x) <= C_SAFE * EPS * 16 * max(1.0, kap)):
                        out.violation(key0 + '/not_invariant', 'GME changes from %.17g to %.17g under a permutation/sign change of the coefficients' % (x, y), abc=list(perm), signs=list(sg))
            out.outcome(('wGME', x), nontrivial=x != 0)
            out.trace()
        out.sample = {'kind': 'gme', 'fn': 'wtype', 'abc': [1 / math.sqrt(3)] * 3, 'expected': 5 / 9}


def prepare(env):
    """sanity of the unextendibility oracle on literal inputs (a failure is a harness error, never a verdict)"""
    s2, s3 = 1 / math.sqrt(2), 1 / math.sqrt(3)
    A = np.array([[1, 0, 0], [s2, -s2, 0], [0, 0, 1], [0, s2, -s2], [s3, s3, s3]])
    B = np.array([[s2, -s2, 0], [0, 0, 1], [0, s2, -s2], [1, 0, 0], [s3, s3, s3]])
    assert is_extendible([A, B])[0] is False                      # Tiles (Bennett et al. 1999)
    for j in range(5):
        keep = [k for k in range(5) if k != j]
        assert is_extendible([A[keep], B[keep]])[0] is True       # four product vectors in 3x3 are always extendible
    e = np.eye(2)
    assert is_extendible([np.stack([e[0], e[0], e[1]]), np.stack([e[0], e[1], e[0]]), np.stack([e[0], e[0], e[0]])])[0] is True


# ------------------------------------------------------------------ cases
def build_cases(tier, seed):
    quick = tier == 'quick'
    G = 2 if quick else 6
    cases = []
    nmax = 8 if quick else 12
    dmax = 8 if quick else 16
    cases += [{'kind': 'ket', 'fn': 'W', 'nmax': nmax}, {'kind': 'ket', 'fn': 'GHZ', 'nmax': nmax}, {'kind': 'ket', 'fn': 'Bell'},
              {'kind': 'ket', 'fn': 'maxent', 'dmax': dmax}, {'kind': 'ket', 'fn': 'coherent', 'dmax': dmax}]
    dicke = {2: 6, 3: 5, 4: 4, 5: 3} if quick else {2: 9, 3: 7, 4: 5, 5: 5, 6: 3}
    for dim, nm in dicke.items():
        for n in range(1, nm + 1):
            cases.append({'kind': 'ket', 'fn': 'Dicke', 'dim': dim, 'n': n})
    wn = 5 if quick else 7
    for n in range(1, wn + 1):
        cases.append({'kind': 'ket', 'fn': 'Wtype', 'n': n, 'G': G})
    dd = 6 if quick else 10
    nuni = 9 if quick else 41
    for d in range(2, dd + 1):
        for fam in ('Werner', 'Isotropic'):
            cases.append({'kind': 'dm', 'fn': fam, 'd': d, 'nuni': nuni})
            cases.append({'kind': 'closed', 'fam': fam, 'd': d, 'nuni': nuni})
    cases.append({'kind': 'dm', 'fn': 'mixed', 'dmax': 6 if quick else 12})
    cases.append({'kind': 'dm', 'fn': 'Antoine', 'nuni': 21 if quick else 101})
    cases.append({'kind': 'dm', 'fn': 'bes2x4', 'nuni': 9 if quick else 101, 'G': G})
    cases.append({'kind': 'dm', 'fn': 'bes3x3', 'nuni': 9 if quick else 101, 'G': G})
    ucfg = upb_configs(tier)
    for kind, args in ucfg:
        cases.append({'kind': 'upb', 'upb': kind, 'args': list(args) if isinstance(args, tuple) else args})
    for kind, args in UPB_INADMISSIBLE:
        cases.append({'kind': 'upb', 'upb': kind, 'args': list(args) if isinstance(args, tuple) else args, 'inadmissible': True})
    ngt, nphi = (3, 3) if quick else (5, 4)
    first = True
    for gA in SIX_GT[:ngt]:
        for tA in SIX_GT[:ngt]:
            cases.append({'kind': 'sixparam', 'gA': gA, 'tA': tA, 'ngt': ngt, 'nphi': nphi, 'entropy': first})
            first = False
    for n in range(1, (4 if quick else 5) + 1):
        cases.append({'kind': 'tetra', 'n': n})
    for d in range(2, (6 if quick else 12) + 1):
        cases.append({'kind': 'cheb', 'd': d, 'G': G})
    cases.append({'kind': 'gme', 'fn': 'dicke', 'nmax': 8 if quick else 14})
    cases.append({'kind': 'gme', 'fn': 'wtype', 'K': 61 if quick else 121, 'G': G})
    info = {
        'qubit_counts_W_GHZ': [1, nmax], 'd_maxent_coherent': [1, dmax], 'dicke_(dim:max_qudits)': dicke, 'wtype_n': [1, wn],
        'werner_isotropic_d': [2, dd], 'uniform_grid_points': nuni, 'grid_rule': 'end points, thresholds, adjacent floats, +-1e-9, +-1e-6, +-1e-3, uniform grid',
        'upb_configs': [[k, a] for k, a in ucfg], 'upb_inadmissible_probes': [[k, a] for k, a in UPB_INADMISSIBLE],
        'sixparam_lattice': {'gamma_theta': SIX_GT[:ngt], 'phi': SIX_PHI[:nphi], 'points': ngt ** 4 * nphi ** 2},
        'tetrahedron_n': [1, 4 if quick else 5], 'chebyshev_d': [2, 6 if quick else 12], 'generic_atoms': G,
        'exhaustive': True,
        'note': 'exhaustive within the stated bounds: every argument point x option combination of every listed constructor is executed; '
                'real parameters are covered on the stated grids only',
    }
    return cases, info


def run_case(case, out, env):
    import numqi  # noqa
    with np.errstate(all='ignore'):
        kind = case['kind']
        if kind == 'ket':
            run_ket(case, out, env)
        elif kind == 'dm':
            run_dm(case, out, env)
        elif kind == 'closed':
            run_closed(case, out, env)
        elif kind == 'upb':
            run_upb(case, out, env)
        elif kind == 'sixparam':
            run_sixparam(case, out, env)
        elif kind == 'tetra':
            run_tetra(case, out, env)
        elif kind == 'cheb':
            run_cheb(case, out, env)
        elif kind == 'gme':
            run_gme(case, out, env)
        else:
            raise ValueError(kind)
