"""C16 - Gell-Mann coordinates are an orthogonal-basis isomorphism   (mode B: basis alphabets for linear code)

Spaces (DESIGN.md section 4, C16):
  basis     : gellmann_matrix(i,j,d) for all (i,j); all_gellmann_matrix(d, tensor_n, with_I) for all (tensor_n, with_I),
              cold and warm cache: Hermitian, every element equals the textbook construction in the documented order
              (symmetric, antisymmetric, diagonal, identity; tensor products in product order), complete Gram matrix
              Tr(G_i G_j) = 2^tensor_n delta_ij.
  analysis  : matrix_to_gellmann_basis on ALL matrix units E_ab and i*E_ab (a basis of C^{dxd} over R, so agreement
              implies agreement on every matrix if the code is R-linear) + generic atoms + one linearity residual,
              for every (backend, input dtype, batch shape, memory layout); conversion path m->v->m->v in lock-step.
  synthesis : gellmann_basis_to_matrix on ALL unit vectors e_i and i*e_i + atoms; path v->m->v->m.
  dm        : density-matrix alphabet (|a><a|, |a>+|b>, |a>+i|b>, 1/d, I/d +- r G_i, atoms): path rho->b->rho->b,
              with_rho0, norm, and squared distance on ALL ordered pairs; Bloch-vector alphabet (0, +-r e_i, atoms):
              path b->rho->b->rho.
  additions : int64 inputs (0/1-valued unit alphabets E_ab / e_i / |a><a| / 0,e_i; all six functions, both backends); batch rank 3
              (2,1,l); all_gellmann_matrix argument spellings (np.int64 / float d, np.int64 tensor_n, with_I = 0/1/np.bool_) on a
              cold cache, each followed by the plain call; d = 1 (gellmann_matrix(0,0,1), m<->v, dm functions on [[1]]); band next
              to the maximally mixed state 1/d +- t G_i, t = 1e-9..1e-3: Bloch vector, norm (absolute tolerance) and squared
              distance on all ordered pairs (tolerance relative to the squared Bloch distance).
Oracle: textbook Gell-Mann matrices built here (ref_gellmann), coefficients Tr(G_i A)/2, synthesis sum_i c_i G_i,
all in complex128 on the exactly-cast input.

Tolerance (DESIGN 3.2: c * eps(dtype) * kappa):
  every output entry of analysis/synthesis is a sum of at most d+1 products (input entry) x (constant of modulus
  <= sqrt 2) - the diagonal coefficients are a cumulative sum of <= d terms plus one product, divided by a constant.
  Standard forward error of such a sum: gamma_{d+2} * sqrt2 * max|input| <= 1.5 (d+2) eps max|input|.
  kappa = (d+2) * max(1, max|input|) * (number of conversion steps so far)   (each step is a linear map of norm <= sqrt2
  .. 2 acting on the error of the previous one, which the step count times the safety constant absorbs),
  c = 64 (fixed safety constant; the rigorous constant is about 3), eps = machine epsilon of the *input precision*
  (float32/complex64 inputs may legitimately be processed in single precision).
  Norm / distance2: Euclidean norm of d^2 entries each with error <= eps*max|rho|: error <= d*eps; the same tolerance
  formula with one step covers it.
"""
import functools
import itertools

import numpy as np

PROPERTY = 'C16'
GUARD = ['numqi.gellmann']  # argument-immutability oracle (mc.seams.ImmutabilityGuard)
LEVEL = 'model_checking'
RULE = ('mode B (basis alphabets): case = (function family, d, backend, input dtype); inside a case the complete basis alphabet '
        '(all matrix units E_ab and i*E_ab / all unit coefficient vectors e_i and i*e_i / the polarisation set of density matrices '
        'and the Bloch points 0, +-r e_i, plus seed-dependent generic atoms) is pushed through every batch shape and memory layout; '
        'state = one (configuration, batch shape, layout, alphabet element) point or one basis element (the complete Gram matrix is checked per basis, entries counted separately); transition = one '
        'numqi call whose complete output was compared with the explicit basis expansion; trace = one element followed through a whole '
        'conversion path (m->v->m->v, v->m->v->m, rho->b->rho->b, b->rho->b->rho) with every step compared; non-trivial = observed '
        'output has at least two non-zero entries (not the zero/trivial answer). Further case kinds: the same three families with int64 inputs '
        '(0/1-valued unit alphabets, no atoms); d=1 (single point of the basis, m<->v paths, dm functions on [[1]]); inside a basis case '
        'every numeric spelling of (d, tensor_n, with_I) is called on a cold cache and followed by the plain call, both compared with the '
        'reference and bit-wise with each other; inside a dm case the band 1/d, 1/d +- t G_i (t in 1e-9,1e-7,1e-5,1e-3; one axis per '
        'coefficient group, every axis for d<=4 in the thorough tier) is pushed through Bloch vector, norm and the squared distance of all '
        'ordered pairs with a tolerance relative to the squared Bloch distance')
ASSUMPTIONS = [
    'reference = textbook generalized Gell-Mann matrices (E_ab+E_ba, -i(E_ab-E_ba), sqrt(2/(l(l+1))) diag(1..1,-l,0..), sqrt(2/d) 1) '
    'in the documented order X-like, Y-like, Z-like, identity, pairs (a<b) in row-major order; coefficients Tr(G_i A)/2',
    'R-linearity of analysis/synthesis is trusted (composed of indexing, transposition, sums, products with constants) and '
    'spot-checked with one generic residual per configuration; given it, agreement on E_ab, i*E_ab implies agreement on all inputs',
    'for tensor_n>1 the elements are Kronecker products in itertools.product order and are orthogonal with Tr = 2^tensor_n; the '
    'docstring promises the value 2 only for the single-factor matrices',
    'dm_to_gellmann_norm is documented for numpy arrays only; it is exercised with torch tensors too but a TypeError there would be '
    'counted as outside the documented domain',
    'dimensions above the bound, GPU tensors, autograd, float16 inputs, integer inputs other than 0/1-valued int64, empty batches and '
    'the empty Bloch vector of d=1 are outside the explored space',
    'int64 inputs may be processed in the precision the backend promotes integers to (numpy: float64, torch: default dtype float32); '
    'an int64 torch tensor as coefficient vector is ruled outside the domain (undocumented form, never produced by the library itself): gellmann_basis_to_matrix raises on it in torch while numpy promotes; counted under pending/torch_int_input, not reported',
    'near the maximally mixed state the Bloch vector and the norm are only required to be accurate to eps * Tr(rho) absolutely (the '
    'implementation subtracts the trace part, partial sums of size 1); the squared distance is required to be accurate relative to '
    'its own size. The exactly-cast single-precision inputs have traces that differ by rounding; the resulting squared difference of '
    'the identity coefficients is computed from the inputs and added to the expected value',
    'all_gellmann_matrix(1) is rejected by the d>=2 assert (counted); d=1 is explored for the functions that accept it',
]

C_SAFETY = 64.0
EPS = {'c128': 2.220446049250313e-16, 'f64': 2.220446049250313e-16, 'c64': 1.1920929e-07, 'f32': 1.1920929e-07,
       'i64': 2.220446049250313e-16}
NP_DT = {'c128': np.complex128, 'f64': np.float64, 'c64': np.complex64, 'f32': np.float32, 'i64': np.int64}
REAL_OF = {'c128': 'f64', 'f64': 'f64', 'c64': 'f32', 'f32': 'f32', 'i64': 'f64'}
IS_REAL = {'c128': False, 'f64': True, 'c64': False, 'f32': True, 'i64': True}
DTYPES = ['c128', 'f64', 'c64', 'f32']
INT_DTYPE = 'i64'  # integer inputs: 0/1-valued unit alphabets only (exactly representable), own cases
BACKENDS = ['numpy', 'torch']
# additions whose oracle fires on the pinned tree and is waiting for a ruling; the oracle stays in the module, the flag
# turns the finding into a counter `pending/<flag>`
#   torch_int_input: gellmann_basis_to_matrix raises RuntimeError (scatter dtype mismatch) for an int64 torch tensor while
#                    the same int64 numpy array is converted (the other five functions accept int64 tensors)
PENDING = {'torch_int_input'}


def tol_dtype(backend, dt):
    """precision in which an input of dtype dt may legitimately be processed: integer arrays are promoted to float64 by
    numpy and to the default dtype float32 by torch (true division / multiplication by a python complex)"""
    if dt == INT_DTYPE:
        return 'f32' if backend == 'torch' else 'f64'
    return dt


def tol_of(dt, d, scale, steps=1):
    return C_SAFETY * EPS[dt] * (d + 2) * max(1.0, float(scale)) * steps


# ------------------------------------------------------------------ reference model
@functools.lru_cache(maxsize=None)
def ref_gellmann(d):
    """textbook generalized Gell-Mann matrices, (d*d, d, d) complex128; order: symmetric (a<b row-major), antisymmetric,
    diagonal l=1..d-1, normalised identity. Tr(G_i G_j) = 2 delta_ij."""
    pairs = [(a, b) for a in range(d) for b in range(a + 1, d)]
    mats = []
    for a, b in pairs:
        m = np.zeros((d, d), dtype=np.complex128)
        m[a, b] = 1
        m[b, a] = 1
        mats.append(m)
    for a, b in pairs:
        m = np.zeros((d, d), dtype=np.complex128)
        m[a, b] = -1j
        m[b, a] = 1j
        mats.append(m)
    for l in range(1, d):
        v = np.zeros(d)
        v[:l] = 1
        v[l] = -l
        mats.append(np.diag(v * np.sqrt(2.0 / (l * (l + 1)))).astype(np.complex128))
    mats.append(np.eye(d, dtype=np.complex128) * np.sqrt(2.0 / d))
    ret = np.stack(mats)
    ret.setflags(write=False)
    return ret


def ref_gellmann_tensor(d, n):
    G = ref_gellmann(d)
    ret = G
    for _ in range(n - 1):
        N, D = ret.shape[0], ret.shape[1]
        ret = np.einsum('iab,jcd->ijacbd', ret, G).reshape(N * d * d, D * d, D * d)
    return ret


def ref_analysis(A):
    """c_i = Tr(G_i A)/2 ; A (...,d,d) -> (...,d*d)"""
    d = A.shape[-1]
    return np.einsum('iab,...ba->...i', ref_gellmann(d), A.astype(np.complex128)) / 2


def ref_synthesis(c):
    """sum_i c_i G_i ; c (...,d*d) -> (...,d,d)"""
    d = int(round(np.sqrt(c.shape[-1])))
    return np.einsum('...i,iab->...ab', c.astype(np.complex128), ref_gellmann(d))


def coef_group(d, i):
    P = d * (d - 1) // 2
    if i < P:
        return 'sym'
    if i < 2 * P:
        return 'antisym'
    if i < 2 * P + d - 1:
        return 'diag'
    return 'identity'


# ------------------------------------------------------------------ alphabets
def matrix_alphabet(d, real, G, rng):
    """(labels, X[n,d,d] complex128): all E_ab, (complex only) all i*E_ab, G generic atoms"""
    labels, mats = [], []
    for a in range(d):
        for b in range(d):
            m = np.zeros((d, d), dtype=np.complex128)
            m[a, b] = 1
            labels.append('E%d,%d' % (a, b))
            mats.append(m)
    if not real:
        for a in range(d):
            for b in range(d):
                m = np.zeros((d, d), dtype=np.complex128)
                m[a, b] = 1j
                labels.append('iE%d,%d' % (a, b))
                mats.append(m)
    for g in range(G):
        re, im = rng.normal(size=(d, d)), rng.normal(size=(d, d))
        labels.append('atom%d' % g)
        mats.append((re + 0j) if real else (re + 1j * im))
    return labels, np.stack(mats)


def vector_alphabet(d, real, G, rng):
    n = d * d
    labels, vecs = [], []
    for i in range(n):
        v = np.zeros(n, dtype=np.complex128)
        v[i] = 1
        labels.append('e%d' % i)
        vecs.append(v)
    if not real:
        for i in range(n):
            v = np.zeros(n, dtype=np.complex128)
            v[i] = 1j
            labels.append('ie%d' % i)
            vecs.append(v)
    for g in range(G):
        re, im = rng.normal(size=n), rng.normal(size=n)
        labels.append('atom%d' % g)
        vecs.append((re + 0j) if real else (re + 1j * im))
    return labels, np.stack(vecs)


def atom_dm(rng, d, rank, real):
    re, im = rng.normal(size=(d, rank)), rng.normal(size=(d, rank))
    a = (re + 0j) if real else (re + 1j * im)
    m = a @ a.conj().T
    return m / np.trace(m).real


def dm_alphabet(d, real, G, rng):
    """density matrices: computational basis, |a>+|b>, |a>+i|b> (complex), maximally mixed, I/d +- r G_i (Bloch axis points,
    r = 1/(2d) keeps them positive), atoms of rank d,1,2,d-1,..."""
    labels, mats = [], []
    E = np.eye(d, dtype=np.complex128)
    for a in range(d):
        labels.append('|%d>' % a)
        mats.append(np.outer(E[a], E[a]))
    for a in range(d):
        for b in range(a + 1, d):
            v = (E[a] + E[b]) / np.sqrt(2)
            labels.append('|%d>+|%d>' % (a, b))
            mats.append(np.outer(v, v.conj()))
    if not real:
        for a in range(d):
            for b in range(a + 1, d):
                v = (E[a] + 1j * E[b]) / np.sqrt(2)
                labels.append('|%d>+i|%d>' % (a, b))
                mats.append(np.outer(v, v.conj()))
    labels.append('1/d')
    mats.append(E / d)
    Gm = ref_gellmann(d)
    r = 1.0 / (2 * d)
    for i in range(d * d - 1):
        if real and coef_group(d, i) == 'antisym':
            continue
        for s in (1, -1):
            labels.append('1/d%+d*r*G%d' % (s, i))
            mats.append(E / d + s * r * Gm[i])
    ranks = [d, 1, 2, max(1, d - 1)]
    for g in range(G):
        labels.append('atom%d(rank%d)' % (g, ranks[g % 4]))
        mats.append(atom_dm(rng, d, ranks[g % 4], real))
    return labels, np.stack(mats)


def bloch_alphabet(d, G, rng):
    n = d * d - 1
    r = 1.0 / (2 * d)
    labels, vecs = ['0'], [np.zeros(n)]
    for i in range(n):
        for s in (1, -1):
            v = np.zeros(n)
            v[i] = s * r
            labels.append('%+d*r*e%d' % (s, i))
            vecs.append(v)
    ranks = [d, 1, 2, max(1, d - 1)]
    for g in range(G):
        rho = atom_dm(rng, d, ranks[g % 4], False)
        labels.append('atom%d(rank%d)' % (g, ranks[g % 4]))
        vecs.append(ref_analysis(rho).real[:-1])
    return labels, np.stack(vecs)


BAND_OFFSETS = (1e-9, 1e-7, 1e-5, 1e-3)


def band_alphabet(d, real, deep):
    """density matrices next to the maximally mixed state: 1/d and 1/d +- t G_i, t in BAND_OFFSETS (Bloch length exactly t: the
    formulas that subtract Tr(rho)^2/d from Tr(rho^2) lose it). Axes: one per coefficient group - first symmetric, first
    antisymmetric (complex dtypes), first and last diagonal (the last one touches every diagonal entry); every axis for d <= 4
    in the thorough tier."""
    P = d * (d - 1) // 2
    axes = list(range(d * d - 1)) if (deep and d <= 4) else sorted({0, P, 2 * P, 2 * P + d - 2})
    axes = [i for i in axes if not (real and coef_group(d, i) == 'antisym')]
    E = np.eye(d, dtype=np.complex128)
    Gm = ref_gellmann(d)
    labels, mats = ['1/d'], [E / d]
    for t in BAND_OFFSETS:
        for i in axes:
            for sgn in (1, -1):
                labels.append('1/d%+d*%g*G%d' % (sgn, t, i))
                mats.append(E / d + sgn * t * Gm[i])
    return labels, np.stack(mats)


def dm_alphabet_int(d):
    """0/1-valued density matrices: the computational basis states"""
    E = np.eye(d, dtype=np.complex128)
    return ['|%d>' % a for a in range(d)], np.stack([np.outer(E[a], E[a]) for a in range(d)])


def bloch_alphabet_int(d):
    """0/1-valued Bloch coordinates: 0 and the unit vectors (the conversions are affine, positivity is not needed)"""
    n = d * d - 1
    return ['0'] + ['e%d' % i for i in range(n)], np.concatenate([np.zeros((1, n)), np.eye(n)])


def batchings(n, deep):
    """list of (label, [index arrays]); X[idx] has shape idx.shape + tail. Padding wraps around (elements repeated)."""
    def pad(k):
        m = -(-n // k) * k
        return np.arange(m) % n
    ret = [
        ('()', [np.array(i) for i in range(n)]),
        ('(n,)', [np.arange(n)]),
        ('(1,)', [np.array([i]) for i in range(n)]),
        ('(2,l)', [pad(2).reshape(2, -1)]),
        ('(2,1,l)', [pad(2).reshape(2, 1, -1)]),  # batch rank 3 (the implementations flatten with reshape(-1,..) and restore)
    ]
    if deep:
        ret += [
            ('(l,3)', [pad(3).reshape(-1, 3)]),
            ('(1,n)', [np.arange(n).reshape(1, n)]),
            ('(n,1)', [np.arange(n).reshape(n, 1)]),
            ('(1,1)', [np.array([[i]]) for i in range(n)]),
            ('(2,)', [pad(2).reshape(-1, 2)[j] for j in range(-(-n // 2))]),
        ]
    return ret


def layouts(deep):
    return ['C', 'strided', 'F']


def make_input(backend, dt, arr, layout):
    """cast the complex128 master array to the input dtype and memory layout; returns (input object, exact value as complex128)"""
    npdt = NP_DT[dt]
    x = (arr.real if IS_REAL[dt] else arr).astype(npdt)
    if layout == 'C':
        x = np.ascontiguousarray(x)
    elif layout == 'strided':
        # non-contiguous view: every second entry of a buffer whose gaps hold poison
        z = np.full(x.shape[:-1] + (2 * x.shape[-1],), 7.5, dtype=npdt)
        z[..., ::2] = x
        x = z[..., ::2]
    elif layout == 'F':
        x = np.asfortranarray(x)
    else:
        raise ValueError(layout)
    exact = np.array(x, dtype=np.complex128)
    if backend == 'torch':
        import torch
        x = torch.from_numpy(x) if x.ndim else torch.tensor(x)
    return x, exact


def to_np(y):
    if hasattr(y, 'detach'):
        y = y.detach().cpu().numpy()
    return np.asarray(y)


def is_backend(y, backend):
    if backend == 'torch':
        return hasattr(y, 'detach')
    return isinstance(y, (np.ndarray, np.generic))


class Cfg:
    """one (case, batching, layout) context: carries what a finding needs to be self-contained"""

    def __init__(self, out, case, batching, layout, labels):
        self.out, self.case, self.batching, self.layout, self.labels = out, case, batching, layout, labels
        self.d, self.backend, self.dt = case['d'], case.get('backend'), case.get('dtype')

    def detail(self, **kw):
        ret = {'d': self.d, 'backend': self.backend, 'input_dtype': self.dt, 'batch_shape': self.batching, 'layout': self.layout}
        ret.update(kw)
        return ret


def call(cfg, site, op, fn, *args, **kw):
    """one numqi call; an exception on an admissible input is a violation. Returns (ok, value)."""
    cfg.out.trans()
    try:
        return True, fn(*args, **kw)
    except Exception as e:  # noqa
        if cfg.dt == INT_DTYPE and cfg.backend == 'torch' and 'torch_int_input' in PENDING:
            # the same int64 input as a numpy array is an own case (a failure there is a violation)
            cfg.out.count('pending/torch_int_input')
            cfg.out.count('pending/torch_int_input/%s/%s' % (op, type(e).__name__))
            return False, None
        # smallest configuration in the key: the memory layout if the contiguous one is not affected (cases run C first)
        seen = cfg.out.__dict__.setdefault('_exc_in_C', set())
        if cfg.layout in (None, 'C'):
            seen.add((site, op, type(e).__name__))
        lay = '' if (cfg.layout in (None, 'C') or (site, op, type(e).__name__) in seen) else '/layout=%s' % cfg.layout
        cfg.out.violation('%s/%s/%s/%s%s' % (site, op, cfg.backend, type(e).__name__, lay),
                          '%s raised %s: %s' % (op, type(e).__name__, str(e)[:200]),
                          **cfg.detail(args=[to_np(a) for a in args if not isinstance(a, bool)], kwargs=kw))
        return False, None


def compare(cfg, site, op, y, expected, tol, idx, src, group_fn, require_backend=True, require_real=False, record=True):
    """compare the complete output `y` of one call with the reference `expected` (batch + tail). idx: index array of the
    batch into the alphabet (for the literal input in the detail); src: master alphabet array. Returns True if equal."""
    out = cfg.out
    key0 = '%s/%s/%s' % (site, op, cfg.backend)
    if require_backend and not is_backend(y, cfg.backend):
        out.violation(key0 + '/backend_mismatch', '%s returned %s for a %s input' % (op, type(y).__name__, cfg.backend), **cfg.detail())
        return False
    yn = to_np(y)
    if yn.shape != expected.shape:
        out.violation(key0 + '/shape', '%s returned shape %s, expected %s' % (op, yn.shape, expected.shape),
                      **cfg.detail(input_shape=list(src[idx].shape)))
        return False
    if require_real and yn.dtype.kind == 'c':
        out.violation(key0 + '/not_real', '%s is documented to return a real vector but returned dtype %s' % (op, yn.dtype), **cfg.detail())
        return False
    tail = expected.ndim - np.ndim(idx)
    yb = yn.reshape((-1,) + expected.shape[expected.ndim - tail:]).astype(np.complex128)
    eb = expected.reshape(yb.shape)
    flat_idx = np.asarray(idx).reshape(-1)
    if not np.all(np.isfinite(yb)):
        k = int(np.argwhere(~np.isfinite(yb).reshape(len(yb), -1).all(axis=1))[0, 0])
        out.violation(key0 + '/nonfinite', '%s returned NaN/Inf where the reference is finite (element %s)' % (op, cfg.labels[flat_idx[k]]),
                      **cfg.detail(element=cfg.labels[flat_idx[k]], input=src[flat_idx[k]], got=yb[k], expected=eb[k]))
        return False
    err = np.abs(yb - eb).reshape(len(yb), -1)
    ok = True
    if err.size and err.max() > tol:
        bad = np.argwhere(err.max(axis=1) > tol)[:, 0]
        k = int(bad[0])
        pos = int(np.argmax(err[k] > tol))
        grp = group_fn(pos)
        out.violation('%s/wrong_value/%s' % (key0, grp),
                      '%s differs from the explicit basis expansion for element %s (d=%d, %s %s, batch %s, layout %s): |err|=%.3g > tol=%.3g at entry %d (%s); %d of %d elements wrong'
                      % (op, cfg.labels[flat_idx[k]], cfg.d, cfg.backend, cfg.dt, cfg.batching, cfg.layout, err[k].max(), tol, pos, grp, len(bad), len(yb)),
                      **cfg.detail(element=cfg.labels[flat_idx[k]], input=src[flat_idx[k]], got=yb[k], expected=eb[k], err=float(err[k].max()), tol=tol,
                                   position_in_batch=k))
        ok = False
    if record:
        for k in range(len(yb)):
            r = np.round(yb[k], 4) + 0.0
            out.outcome((op, cfg.d, r), nontrivial=int(np.count_nonzero(r)) >= 2)
    return ok


def grp_coef(d):
    return lambda pos: coef_group(d, pos)


def grp_mat(d):
    return lambda pos: 'diagonal' if (pos // d) == (pos % d) else ('upper' if (pos // d) < (pos % d) else 'lower')


# ------------------------------------------------------------------ cases
def prepare(env):
    for d in range(2, 13):
        ref_gellmann(d)


def build_cases(tier, seed):
    quick = tier == 'quick'
    dmax = 8 if quick else 12
    G = 2 if quick else 6
    deep = not quick
    if quick:
        tensor_cfg = [(d, 2) for d in range(2, 6)] + [(2, 3)]
    else:
        tensor_cfg = [(d, 2) for d in range(2, 8)] + [(2, 3), (3, 3), (2, 4)]
    cases = []
    # d = 1 (accepted by the assert of gellmann_matrix and by the shape asserts of the conversions; all_gellmann_matrix asks d>=2):
    # the basis is the single normalised identity sqrt(2), the Bloch vector is empty
    cases.append({'kind': 'd1', 'd': 1})
    for kind in ('analysis', 'synthesis'):
        for backend in BACKENDS:
            for dt in DTYPES:
                cases.append({'kind': kind, 'd': 1, 'backend': backend, 'dtype': dt, 'G': G, 'deep': deep})
    for d in range(2, dmax + 1):
        cases.append({'kind': 'basis', 'd': d, 'tensor_n': 1})
    for d in range(2, dmax + 1):
        for kind in ('analysis', 'synthesis', 'dm'):
            for backend in BACKENDS:
                for dt in DTYPES:
                    cases.append({'kind': kind, 'd': d, 'backend': backend, 'dtype': dt, 'G': G, 'deep': deep})
    # integer inputs (0/1-valued unit alphabets, no generic atoms): all six functions, both backends
    for d in range(2, dmax + 1):
        for kind in ('analysis', 'synthesis', 'dm'):
            for backend in BACKENDS:
                cases.append({'kind': kind, 'd': d, 'backend': backend, 'dtype': INT_DTYPE, 'G': 0, 'deep': deep})
    for d, n in sorted(tensor_cfg, key=lambda x: x[0] ** (2 * x[1])):
        cases.append({'kind': 'basis', 'd': d, 'tensor_n': n})
    info = {
        'd_range': [2, dmax], 'tensor_products': [{'d': d, 'tensor_n': n} for d, n in tensor_cfg],
        'backends': BACKENDS, 'input_dtypes': DTYPES, 'generic_atoms_per_alphabet': G,
        'batch_shapes': [b[0] for b in batchings(4, deep)], 'layouts': layouts(deep),
        'alphabet_sizes': {str(d): {'matrix(complex)': 2 * d * d + G, 'matrix(real)': d * d + G, 'vector(complex)': 2 * d * d + G,
                                    'dm(complex)': d + d * (d - 1) + 1 + 2 * (d * d - 1) + G, 'bloch': 1 + 2 * (d * d - 1) + G}
                           for d in range(2, dmax + 1)},
        'path_length': 3,
        'int_dtype_cases': {'dtype': 'int64', 'alphabets': 'E_ab / e_i / |a><a| / 0,e_i (0/1-valued)', 'pending_flags': sorted(PENDING)},
        'all_gellmann_matrix_argument_forms': ['d=np.int64', 'd=float', 'tensor_n=np.int64', 'with_I=1', 'with_I=0', 'with_I=np.bool_'],
        'd1': 'gellmann_matrix(0,0,1); analysis/synthesis cases with d=1; dm functions on [[1]] for batch shapes (), (1,), (1,1)',
        'near_maximally_mixed_band': {'offsets': list(BAND_OFFSETS), 'axes': 'first sym, first antisym, first and last diag (all axes for d<=4 if thorough)',
                                      'signs': [1, -1], 'pairs': 'all ordered pairs of the band incl. 1/d'},
        'property_quantifier_d': [2, 8],
        'exhaustive': True,
        'note': ('exhaustive within the stated bounds: every basis-alphabet element x batch shape x layout x backend x dtype x d is executed; '
                 'this tier covers d=2..%d (the property quantifies d=2..8). The statement for all inputs follows from R-linearity '
                 '(assumption 2).' % dmax),
    }
    return cases, info


def run_case(case, out, env):
    import numqi  # noqa
    kind = case['kind']
    if kind == 'basis':
        run_basis(case, out, env)
    elif kind == 'analysis':
        run_analysis(case, out, env)
    elif kind == 'synthesis':
        run_synthesis(case, out, env)
    elif kind == 'dm':
        run_dm(case, out, env)
    elif kind == 'd1':
        run_d1(case, out, env)
    else:
        raise ValueError(kind)


# ------------------------------------------------------------------ basis
def run_basis(case, out, env):
    import numqi
    gm = numqi.gellmann
    d, n = case['d'], case['tensor_n']
    cfg = Cfg(out, case, None, None, None)
    cfg.backend = 'numpy'
    if n == 1:
        # single elements gellmann_matrix(i,j,d): i<j X-like, i>j Y-like, i=j=0 identity, i=j>0 Z-like (docstring)
        Gr = ref_gellmann(d)
        pairs = [(a, b) for a in range(d) for b in range(a + 1, d)]
        P = len(pairs)
        for i in range(d):
            for j in range(d):
                out.state()
                ok, m = call(cfg, 'basis', 'gellmann_matrix', gm.gellmann_matrix, i, j, d)
                if not ok:
                    continue
                if i < j:
                    e = Gr[pairs.index((i, j))]
                elif i > j:
                    e = Gr[P + pairs.index((j, i))]
                elif i == 0:
                    e = Gr[-1]
                else:
                    e = Gr[2 * P + i - 1]
                m = np.asarray(m)
                if m.shape != (d, d) or not np.all(np.isfinite(m)) or np.abs(m - e).max() > 4 * EPS['c128']:
                    role = 'sym' if i < j else ('antisym' if i > j else ('identity' if i == 0 else 'diag'))
                    out.violation('basis/gellmann_matrix/wrong_element/%s' % role,
                                  'gellmann_matrix(%d,%d,%d) is not the documented %s element' % (i, j, d, role), i=i, j=j, d=d, got=m, expected=e)
                out.outcome(('gellmann_matrix', d, np.round(m, 6)), nontrivial=True)
    Gr = ref_gellmann_tensor(d, n)
    N = Gr.shape[0]
    D = d ** n
    try:
        gm._all_gellmann_matrix_cache.cache_clear()
        out.count('cache_cleared')
    except AttributeError:
        from mc import seams
        seams.clear_numqi_caches()
    for with_I in (True, False):
        exp = Gr if with_I else Gr[:-1]
        for temp in ('cold', 'warm'):
            ok, Gi = call(cfg, 'basis', 'all_gellmann_matrix', gm.all_gellmann_matrix, d, tensor_n=n, with_I=with_I)
            if not ok:
                continue
            Gi = np.asarray(Gi)
            det = dict(d=d, tensor_n=n, with_I=with_I, cache=temp)
            if Gi.shape != exp.shape:
                out.violation('basis/all_gellmann_matrix/shape', 'all_gellmann_matrix(%d,tensor_n=%d,with_I=%s) has shape %s, documented %s'
                              % (d, n, with_I, Gi.shape, exp.shape), **det)
                continue
            out.state(len(Gi))
            if not np.all(np.isfinite(Gi)):
                out.violation('basis/all_gellmann_matrix/nonfinite', 'NaN/Inf in the basis', **det)
                continue
            # Hermitian (exact: entries are copied, conjugates of each other)
            herr = np.abs(Gi - Gi.conj().transpose(0, 2, 1)).reshape(len(Gi), -1).max(axis=1)
            if herr.max() > 4 * EPS['c128']:
                k = int(np.argmax(herr > 4 * EPS['c128']))
                out.violation('basis/all_gellmann_matrix/not_hermitian', 'element %d of all_gellmann_matrix(%d,tensor_n=%d,with_I=%s) is not Hermitian'
                              % (k, d, n, with_I), index=k, element=Gi[k] if D <= 9 else None, **det)
            # documented order / element values. tolerance: products of n doubles, relative error n*eps, entries <= 2^(n/2)
            terr = np.abs(Gi - exp).reshape(len(Gi), -1).max(axis=1)
            tol = 4 * n * EPS['c128'] * 2 ** (n / 2)
            if terr.max() > tol:
                k = int(np.argmax(terr > tol))
                grp = coef_group(d, k % (d * d)) if n == 1 else 'tensor'
                out.violation('basis/all_gellmann_matrix/wrong_element_or_order/%s' % grp,
                              'element %d of all_gellmann_matrix(%d,tensor_n=%d,with_I=%s) is not the element the documented order (X-like, Y-like, Z-like, I; '
                              'product order) puts there; %d elements differ' % (k, d, n, with_I, int((terr > tol).sum())),
                              index=k, got=Gi[k] if D <= 9 else None, expected=exp[k] if D <= 9 else None, **det)
            # complete Gram matrix Tr(G_i G_j) = sum_ab G_i[a,b] G_j[b,a]; computed from the implementation's matrices.
            # tolerance: sum of D^2 products of entries <= 2^(n/2): gamma_{D^2} * 2^n, with D^2*eps << 1
            F = Gi.reshape(len(Gi), -1)
            gram = F @ Gi.transpose(0, 2, 1).reshape(len(Gi), -1).T
            out.count('gram_entries_checked', gram.size)
            tolg = 4 * EPS['c128'] * (D * D) * 2 ** n
            dev = np.abs(gram - (2 ** n) * np.eye(len(Gi)))
            if dev.max() > tolg:
                i, j = [int(v) for v in np.argwhere(dev > tolg)[0]]
                what = 'normalisation' if i == j else 'orthogonality'
                out.violation('basis/all_gellmann_matrix/gram/%s' % what,
                              'Tr(G_%d G_%d) = %s for all_gellmann_matrix(%d,tensor_n=%d,with_I=%s), expected %d' % (i, j, gram[i, j], d, n, with_I, (2 ** n) * (i == j)),
                              i=i, j=j, value=gram[i, j], **det)
            if with_I:
                # "if True, the last item is identity matrix" (normalised: sqrt(2/d)^n * 1)
                last = Gi[-1]
                if np.abs(last - np.eye(D) * np.sqrt(2.0 / d) ** n).max() > tol:
                    out.violation('basis/all_gellmann_matrix/last_not_identity', 'with_I=True but the last element is not the normalised identity', **det)
            out.trace()
            out.outcome(('all_gellmann_matrix', d, n, with_I, np.round(gram.diagonal().real, 6), core_digest(Gi)), nontrivial=True)
    # ---- argument coercions: the same basis whatever numeric type spells d / tensor_n / with_I. Every form is called on a
    # cold cache (a form that only works once the plain call has filled the cache, or that is cached under the key of a
    # different plain call - 0 == False, 2.0 == 2 - would pass warm) and followed by the plain call (cache poisoned by the form)
    from mc import core
    forms = [('d=np.int64', (np.int64(d),), {'tensor_n': n}, True), ('d=float', (float(d),), {'tensor_n': n}, True),
             ('tensor_n=np.int64', (d,), {'tensor_n': np.int64(n)}, True), ('with_I=1', (d,), {'tensor_n': n, 'with_I': 1}, True),
             ('with_I=0', (d,), {'tensor_n': n, 'with_I': 0}, False), ('with_I=np.bool_', (d,), {'tensor_n': n, 'with_I': np.bool_(False)}, False)]
    for name, args, kw, wI in forms:
        exp = Gr if wI else Gr[:-1]
        tol = 4 * n * EPS['c128'] * 2 ** (n / 2)
        try:
            gm._all_gellmann_matrix_cache.cache_clear()
        except AttributeError:
            from mc import seams
            seams.clear_numqi_caches()
        out.trans()
        out.state()
        try:
            Gc = np.asarray(gm.all_gellmann_matrix(*args, **kw))
        except Exception as e:  # noqa
            if core.is_precondition_assert(e):
                out.count('rejected_by_precondition')
                out.count('rejected_by_precondition/coercion/%s' % name)
                continue
            out.violation('basis/all_gellmann_matrix/coercion/%s/%s' % (name, type(e).__name__),
                          'all_gellmann_matrix(%r, %r) raised %s: %s' % (args, kw, type(e).__name__, str(e)[:200]), d=d, tensor_n=n, form=name)
            continue
        ok, Gp = call(cfg, 'basis', 'all_gellmann_matrix', gm.all_gellmann_matrix, d, tensor_n=n, with_I=wI)
        if not ok:
            continue
        Gp = np.asarray(Gp)
        for what, arr in (('coerced_call', Gc), ('plain_call_after_coerced', Gp)):
            if arr.shape != exp.shape or not (np.abs(arr - exp).max() <= tol):
                out.violation('basis/all_gellmann_matrix/coercion/%s/%s' % (name, what),
                              'all_gellmann_matrix%r %r on a cold cache: the %s is not the basis of the plain call (d=%d, tensor_n=%d, with_I=%s): shape %s, expected %s'
                              % (args, kw, what, d, n, wI, arr.shape, exp.shape), d=d, tensor_n=n, form=name)
                break
        else:
            if Gc.shape != Gp.shape or not np.array_equal(Gc, Gp):
                out.violation('basis/all_gellmann_matrix/coercion/%s/differs_from_plain' % name,
                              'all_gellmann_matrix%r %r is not bit-identical to the plain call' % (args, kw), d=d, tensor_n=n, form=name)
        out.outcome(('coercion', name, d, n, Gc.shape), nontrivial=True)
    out.sample = {'kind': 'basis', 'd': d, 'tensor_n': n, 'elements': int(N), 'gram_entries': int(N * N)}


def run_d1(case, out, env):
    """d = 1: gellmann_matrix(0,0,1) = [[sqrt 2]] (Tr G^2 = 2); the one-dimensional density matrix [[1]] has coefficient
    1/sqrt 2 on it, an empty Bloch vector, norm 0 and distance 0 to itself. (matrix <-> vector for d = 1: analysis / synthesis
    cases with d = 1.) gellmann_basis_to_dm of the empty Bloch vector is an empty input (outside the explored space): a
    result must be [[1]], an exception is counted."""
    import numqi
    from mc import core
    gm = numqi.gellmann
    cfg = Cfg(out, case, None, None, None)
    cfg.backend = 'numpy'
    out.state()
    ok, m = call(cfg, 'basis', 'gellmann_matrix', gm.gellmann_matrix, 0, 0, 1)
    if ok:
        m = np.asarray(m)
        if m.shape != (1, 1) or not (abs(m[0, 0] - np.sqrt(2.0)) <= 4 * EPS['c128']):
            out.violation('basis/gellmann_matrix/wrong_element/identity', 'gellmann_matrix(0,0,1) is not [[sqrt 2]]', i=0, j=0, d=1, got=m)
        out.outcome(('gellmann_matrix', 1, np.round(m, 6)), nontrivial=True)
    out.state()
    out.trans()
    try:
        Gi = np.asarray(gm.all_gellmann_matrix(1))
        if Gi.shape != (1, 1, 1) or not (abs(Gi[0, 0, 0] - np.sqrt(2.0)) <= 4 * EPS['c128']):
            out.violation('basis/all_gellmann_matrix/wrong_element_or_order/identity', 'all_gellmann_matrix(1) is accepted but is not [[[sqrt 2]]]', d=1, got=Gi)
    except Exception as e:  # noqa
        if core.is_precondition_assert(e):
            out.count('rejected_by_precondition')
            out.count('rejected_by_precondition/all_gellmann_matrix(1)')
        else:
            out.violation('basis/all_gellmann_matrix/numpy/%s' % type(e).__name__, 'all_gellmann_matrix(1) raised %s: %s' % (type(e).__name__, str(e)[:200]), d=1)
    rho = np.ones((1, 1), dtype=np.complex128)
    for backend in BACKENDS:
        for dt in DTYPES:
            tol = tol_of(dt, 1, 1, 1)
            for bl, idx in (('()', np.array(0)), ('(1,)', np.array([0])), ('(1,1)', np.array([[0]]))):
                sub = dict(case, backend=backend, dtype=dt)
                cfg = Cfg(out, sub, bl, 'C', ['|0>'])
                X = rho[None]
                out.state()
                xin, exact = make_input(backend, dt, X[idx], 'C')
                bshape = tuple(np.shape(idx))
                ok, b0 = call(cfg, 'dm', 'dm_to_gellmann_basis(with_rho0=True)', gm.dm_to_gellmann_basis, xin, with_rho0=True)
                if ok:
                    compare(cfg, 'dm', 'dm_to_gellmann_basis(with_rho0=True)', b0, np.full(bshape + (1,), 1 / np.sqrt(2.0)), tol, idx, X,
                            grp_coef(1), require_real=True)
                ok, b1 = call(cfg, 'dm', 'dm_to_gellmann_basis', gm.dm_to_gellmann_basis, xin)
                if ok and to_np(b1).shape != bshape + (0,):
                    out.violation('dm/dm_to_gellmann_basis/%s/shape' % backend, 'Bloch vector of the d=1 state has shape %s, documented %s'
                                  % (to_np(b1).shape, bshape + (0,)), **cfg.detail())
                ok, nr = call(cfg, 'dm', 'dm_to_gellmann_norm', gm.dm_to_gellmann_norm, xin)
                if ok:
                    compare(cfg, 'dm', 'dm_to_gellmann_norm', nr, np.zeros(bshape), tol, idx, X, lambda pos: 'vs_reference', require_backend=False, record=False)
                if ok and b1 is not None:
                    out.trans()
                    try:
                        r2 = to_np(gm.gellmann_basis_to_dm(b1))
                        if r2.shape != bshape + (1, 1) or not (np.abs(r2 - 1).max() <= tol):
                            out.violation('dm/gellmann_basis_to_dm/%s/wrong_value/diagonal' % backend, 'the empty Bloch vector (d=1) is accepted but does not give [[1]]',
                                          **cfg.detail(got=r2))
                        out.count('d1_empty_bloch_vector_accepted')
                    except Exception:  # noqa  (empty array: outside the explored space)
                        out.count('outside_explored_space/d1_empty_bloch_vector_raises')
            cfg = Cfg(out, dict(case, backend=backend, dtype=dt), '()', 'C', ['|0>'])
            xin, _ = make_input(backend, dt, rho, 'C')
            out.state()
            ok, v = call(cfg, 'dm', 'get_density_matrix_distance2', gm.get_density_matrix_distance2, xin, xin)
            if ok:
                v = to_np(v)
                if v.shape != () or not np.isfinite(v) or abs(complex(v)) > tol:
                    out.violation('dm/get_density_matrix_distance2/%s/wrong_value' % backend, 'squared distance of the d=1 state to itself is %s' % (v,),
                                  **cfg.detail(got=v, expected=0.0))
                out.outcome(('dist2', 1, 0.0), nontrivial=False)
    out.trace()
    out.sample = {'kind': 'd1', 'd': 1}


def core_digest(x):
    from mc import core
    return core.digest(np.round(x, 6) + 0.0)


# ------------------------------------------------------------------ analysis: matrix -> vector (-> matrix -> vector)
def linearity_residual(cfg, site, op, fn, X, tail_ndim, dt):
    """f(alpha x1 + beta x2) - alpha f(x1) - beta f(x2) on two generic elements (uses the implementation only)"""
    if len(X) < 2 or dt == INT_DTYPE:
        return
    x1, x2 = X[-1], X[-2]
    alpha, beta = (0.75, -1.25) if IS_REAL[dt] else (0.75 - 0.5j, -1.25 + 0.375j)
    a0, e0 = make_input(cfg.backend, dt, alpha * x1 + beta * x2, 'C')
    a1, e1 = make_input(cfg.backend, dt, x1, 'C')
    a2, e2 = make_input(cfg.backend, dt, x2, 'C')
    ys = []
    for a in (a0, a1, a2):
        ok, y = call(cfg, site, op, fn, a)
        if not ok:
            return
        ys.append(to_np(y).astype(np.complex128))
    # the combination was rounded to the input dtype: e0 is what the implementation saw; e0 - alpha e1 - beta e2 = delta is known
    # exactly; by linearity f(e0) = alpha f(e1) + beta f(e2) + f(delta); f(delta) is taken from the reference (|delta| <= eps)
    delta = e0 - alpha * e1 - beta * e2
    fd = ref_analysis(delta) if tail_ndim == 2 else ref_synthesis(delta)
    res = np.abs(ys[0] - alpha * ys[1] - beta * ys[2] - fd).max()
    scale = (abs(alpha) * np.abs(e1).max() + abs(beta) * np.abs(e2).max() + np.abs(e0).max())
    tol = tol_of(dt, cfg.d, scale, 3)
    cfg.out.state()
    if not (res <= tol):
        cfg.out.violation('%s/%s/%s/not_linear' % (site, op, cfg.backend),
                          '%s is not R-linear: residual %.3g > %.3g (the basis-alphabet argument would not apply)' % (op, res, tol),
                          **cfg.detail(x1=x1, x2=x2, alpha=alpha, beta=beta, residual=float(res), tol=tol))


def run_analysis(case, out, env):
    import numqi
    gm = numqi.gellmann
    d, backend, dt = case['d'], case['backend'], case['dtype']
    real = IS_REAL[dt]
    tdt = tol_dtype(backend, dt)
    labels, X = matrix_alphabet(d, real, case['G'], env.rng('analysis', d, real))
    Gimpl = None
    try:
        Gimpl = np.asarray(gm.all_gellmann_matrix(d)).astype(np.complex128)
        if Gimpl.shape != (d * d, d, d):
            Gimpl = None
    except Exception:
        Gimpl = None  # reported by the basis case
    for bl, calls in batchings(len(X), case['deep']):
        for lay in layouts(case['deep']):
            cfg = Cfg(out, case, bl, lay, labels)
            for idx in calls:
                nel = int(np.size(idx))
                out.state(nel)
                xin, exact = make_input(backend, dt, X[idx], lay)
                scale = max(1.0, np.abs(exact).max())
                c_ref = ref_analysis(exact)
                # step 1: m -> v
                ok, v1 = call(cfg, 'analysis', 'matrix_to_gellmann_basis', gm.matrix_to_gellmann_basis, xin)
                if not ok or not compare(cfg, 'analysis', 'matrix_to_gellmann_basis', v1, c_ref, tol_of(tdt, d, scale, 1), idx, X, grp_coef(d)):
                    continue
                # the property's literal statement: the coefficient vector reconstructs the matrix as the linear combination
                # of the basis returned by all_gellmann_matrix
                if Gimpl is not None:
                    rec = np.einsum('...i,iab->...ab', to_np(v1).astype(np.complex128), Gimpl)
                    e = np.abs(rec - exact)
                    if e.max() > tol_of(tdt, d, scale, 2):
                        k = int(np.argmax(e.reshape(max(nel, 1), -1).max(axis=1) > tol_of(tdt, d, scale, 2)))
                        lab = labels[int(np.asarray(idx).reshape(-1)[k])]
                        out.violation('analysis/matrix_to_gellmann_basis/%s/expansion_mismatch' % backend,
                                      'sum_i c_i G_i with G = all_gellmann_matrix(%d) does not reconstruct element %s: err %.3g' % (d, lab, e.max()),
                                      **cfg.detail(element=lab, input=X[int(np.asarray(idx).reshape(-1)[k])], err=float(e.max())))
                        continue
                # step 2: v -> m (implementation output fed back as is)
                ok, m2 = call(cfg, 'analysis', 'gellmann_basis_to_matrix', gm.gellmann_basis_to_matrix, v1)
                if not ok or not compare(cfg, 'analysis', 'gellmann_basis_to_matrix', m2, exact, tol_of(tdt, d, scale, 2), idx, X, grp_mat(d)):
                    continue
                # step 3: m -> v again
                ok, v3 = call(cfg, 'analysis', 'matrix_to_gellmann_basis', gm.matrix_to_gellmann_basis, m2)
                if not ok or not compare(cfg, 'analysis', 'matrix_to_gellmann_basis', v3, c_ref, tol_of(tdt, d, scale, 3), idx, X, grp_coef(d), record=False):
                    continue
                out.trace(nel)
    cfg = Cfg(out, case, '()', 'C', labels)
    linearity_residual(cfg, 'analysis', 'matrix_to_gellmann_basis', gm.matrix_to_gellmann_basis, X, 2, dt)
    out.sample = {'kind': 'analysis', 'd': d, 'backend': backend, 'dtype': dt, 'alphabet': labels[:3] + ['...'] + labels[-3:], 'alphabet_size': len(labels),
                  'atom0': X[-1]}


def run_synthesis(case, out, env):
    import numqi
    gm = numqi.gellmann
    d, backend, dt = case['d'], case['backend'], case['dtype']
    real = IS_REAL[dt]
    tdt = tol_dtype(backend, dt)
    labels, X = vector_alphabet(d, real, case['G'], env.rng('synthesis', d, real))
    for bl, calls in batchings(len(X), case['deep']):
        for lay in layouts(case['deep']):
            cfg = Cfg(out, case, bl, lay, labels)
            for idx in calls:
                nel = int(np.size(idx))
                out.state(nel)
                xin, exact = make_input(backend, dt, X[idx], lay)
                scale = max(1.0, np.abs(exact).max())
                m_ref = ref_synthesis(exact)
                ok, m1 = call(cfg, 'synthesis', 'gellmann_basis_to_matrix', gm.gellmann_basis_to_matrix, xin)
                if not ok or not compare(cfg, 'synthesis', 'gellmann_basis_to_matrix', m1, m_ref, tol_of(tdt, d, scale, 1), idx, X, grp_mat(d)):
                    continue
                ok, v2 = call(cfg, 'synthesis', 'matrix_to_gellmann_basis', gm.matrix_to_gellmann_basis, m1)
                if not ok or not compare(cfg, 'synthesis', 'matrix_to_gellmann_basis', v2, exact, tol_of(tdt, d, scale, 2), idx, X, grp_coef(d)):
                    continue
                ok, m3 = call(cfg, 'synthesis', 'gellmann_basis_to_matrix', gm.gellmann_basis_to_matrix, v2)
                if not ok or not compare(cfg, 'synthesis', 'gellmann_basis_to_matrix', m3, m_ref, tol_of(tdt, d, scale, 3), idx, X, grp_mat(d), record=False):
                    continue
                out.trace(nel)
    cfg = Cfg(out, case, '()', 'C', labels)
    linearity_residual(cfg, 'synthesis', 'gellmann_basis_to_matrix', gm.gellmann_basis_to_matrix, X, 1, dt)
    out.sample = {'kind': 'synthesis', 'd': d, 'backend': backend, 'dtype': dt, 'alphabet': labels[:3] + ['...'] + labels[-3:], 'alphabet_size': len(labels)}


# ------------------------------------------------------------------ density matrices
def run_dm(case, out, env):
    import numqi
    gm = numqi.gellmann
    d, backend, dt = case['d'], case['backend'], case['dtype']
    real = IS_REAL[dt]
    tdt = tol_dtype(backend, dt)
    if dt == INT_DTYPE:
        labels, X = dm_alphabet_int(d)
    else:
        labels, X = dm_alphabet(d, real, case['G'], env.rng('dm', d, real))
    n = d * d - 1
    for bl, calls in batchings(len(X), case['deep']):
        for lay in layouts(case['deep']):
            cfg = Cfg(out, case, bl, lay, labels)
            for idx in calls:
                nel = int(np.size(idx))
                out.state(nel)
                xin, exact = make_input(backend, dt, X[idx], lay)
                c_ref = ref_analysis(exact).real  # (..., d*d) ; the last coefficient is Tr(rho)/sqrt(2d)
                b_ref = c_ref[..., :-1]
                t1 = tol_of(tdt, d, 1, 1)
                # rho -> Bloch vector
                ok, b1 = call(cfg, 'dm', 'dm_to_gellmann_basis', gm.dm_to_gellmann_basis, xin)
                if not ok or not compare(cfg, 'dm', 'dm_to_gellmann_basis', b1, b_ref, t1, idx, X, grp_coef(d), require_real=True):
                    continue
                # with_rho0=True keeps the identity coefficient (documented return shape (...,d**2))
                ok, b0 = call(cfg, 'dm', 'dm_to_gellmann_basis(with_rho0=True)', gm.dm_to_gellmann_basis, xin, with_rho0=True)
                if ok:
                    compare(cfg, 'dm', 'dm_to_gellmann_basis(with_rho0=True)', b0, c_ref, t1, idx, X, grp_coef(d), require_real=True, record=False)
                # reported norm == Euclidean norm of the Bloch vector (reference one and the implementation's own)
                ok, nr = call(cfg, 'dm', 'dm_to_gellmann_norm', gm.dm_to_gellmann_norm, xin)
                if ok:
                    nref = np.linalg.norm(b_ref, axis=-1)
                    if compare(cfg, 'dm', 'dm_to_gellmann_norm', nr, nref, t1, idx, X, lambda pos: 'vs_reference', require_backend=False, record=False):
                        nimpl = np.linalg.norm(to_np(b1).astype(np.float64), axis=-1)
                        compare(cfg, 'dm', 'dm_to_gellmann_norm', nr, nimpl, 2 * t1, idx, X, lambda pos: 'vs_own_bloch_vector', require_backend=False, record=False)
                # Bloch vector -> rho (implementation's own vector fed back) : trace one, Hermitian, equals rho
                ok, r2 = call(cfg, 'dm', 'gellmann_basis_to_dm', gm.gellmann_basis_to_dm, b1)
                if not ok or not compare(cfg, 'dm', 'gellmann_basis_to_dm', r2, exact, tol_of(tdt, d, 1, 2), idx, X, grp_mat(d)):
                    continue
                ok, b3 = call(cfg, 'dm', 'dm_to_gellmann_basis', gm.dm_to_gellmann_basis, r2)
                if not ok or not compare(cfg, 'dm', 'dm_to_gellmann_basis', b3, b_ref, tol_of(tdt, d, 1, 3), idx, X, grp_coef(d), require_real=True, record=False):
                    continue
                out.trace(nel)
    # ---- squared distance on all ordered pairs (documented: no batch support)
    cfg = Cfg(out, case, '()', 'C', labels)
    ins = [make_input(backend, dt, X[i], 'C') for i in range(len(X))]
    bl_ref = [ref_analysis(e).real[:-1] for _, e in ins]
    t1 = tol_of(tdt, d, 1, 1)
    nbad = 0
    for i, j in itertools.product(range(len(X)), repeat=2):
        out.state()
        ok, v = call(cfg, 'dm', 'get_density_matrix_distance2', gm.get_density_matrix_distance2, ins[i][0], ins[j][0])
        if not ok:
            nbad += 1
            if nbad > 5:
                break
            continue
        v = to_np(v)
        expd = float(np.sum((bl_ref[i] - bl_ref[j]) ** 2))
        if v.shape != () or not np.isfinite(v) or abs(complex(v) - expd) > t1:
            out.violation('dm/get_density_matrix_distance2/%s/wrong_value' % backend,
                          'squared distance of %s and %s is %s, squared Euclidean distance of the Bloch vectors is %.12g' % (labels[i], labels[j], v, expd),
                          **cfg.detail(rho=X[i], sigma=X[j], got=v, expected=expd, tol=t1))
            nbad += 1
            if nbad > 5:
                break
        out.outcome(('dist2', d, round(float(np.real(v)), 4) if v.shape == () else None), nontrivial=i != j)
    # ---- mixed dtypes: a real-valued state handed over in the real dtype of the same precision against a complex one, both orders
    # (numpy and torch promote real - complex on their own; the distance must not depend on which operand carries the dtype)
    if dt in ('c128', 'c64') and not real:
        rdt = 'f64' if dt == 'c128' else 'f32'
        real_idx = [i for i in range(len(X)) if np.abs(np.asarray(X[i]).imag).max() == 0]
        cplx_idx = [j for j in range(len(X)) if np.abs(np.asarray(X[j]).imag).max() > 0]
        nbad = 0
        for i in real_idx:
            xr = make_input(backend, rdt, X[i], 'C')[0]
            for j in cplx_idx:
                for order in ('real,complex', 'complex,real'):
                    out.state()
                    a, b = (xr, ins[j][0]) if order == 'real,complex' else (ins[j][0], xr)
                    ok, v = call(cfg, 'dm', 'get_density_matrix_distance2[mixed dtype]', gm.get_density_matrix_distance2, a, b)
                    if not ok:
                        continue
                    v = to_np(v)
                    expd = float(np.sum((bl_ref[i] - bl_ref[j]) ** 2))
                    if (v.shape != () or not np.isfinite(v) or abs(complex(v) - expd) > t1) and nbad < 6:
                        nbad += 1
                        out.violation('dm/get_density_matrix_distance2/%s/wrong_value/mixed_dtype/%s' % (backend, order),
                                      'squared distance of %s (%s) and %s (%s), given as (%s), is %s; squared Euclidean distance of the Bloch vectors is %.12g'
                                      % (labels[i], rdt, labels[j], dt, order, v, expd), **cfg.detail(rho=X[i], sigma=X[j], got=v, expected=expd, tol=t1))
                    out.count('distance2_mixed_dtype_pairs')
    # ---- band next to the maximally mixed state: Bloch vector, norm, and squared distance on all ordered pairs
    if dt != INT_DTYPE:
        blabels, B = band_alphabet(d, real, case['deep'])
        for bl, calls in (('(n,)', [np.arange(len(B))]), ('()', [np.array(i) for i in range(len(B))])):
            cfg = Cfg(out, case, bl, 'C', blabels)
            for idx in calls:
                out.state(int(np.size(idx)))
                xin, exact = make_input(backend, dt, B[idx], 'C')
                b_ref = ref_analysis(exact).real[..., :-1]
                # absolute tolerance: the trace (partial sums up to Tr rho = 1) is subtracted, so the error is eps * 1, not eps * t
                t1 = tol_of(tdt, d, 1, 1)
                ok, b1 = call(cfg, 'dm', 'dm_to_gellmann_basis', gm.dm_to_gellmann_basis, xin)
                if ok:
                    compare(cfg, 'dm', 'dm_to_gellmann_basis', b1, b_ref, t1, idx, B, lambda pos: 'near_maximally_mixed/' + coef_group(d, pos), require_real=True)
                ok, nr = call(cfg, 'dm', 'dm_to_gellmann_norm', gm.dm_to_gellmann_norm, xin)
                if ok:
                    compare(cfg, 'dm', 'dm_to_gellmann_norm', nr, np.linalg.norm(b_ref, axis=-1), t1, idx, B, lambda pos: 'near_maximally_mixed',
                            require_backend=False, record=False)
        cfg = Cfg(out, case, '()', 'C', blabels)
        ins = [make_input(backend, dt, B[i], 'C') for i in range(len(B))]
        nbad = 0
        for i, j in itertools.product(range(len(B)), repeat=2):
            out.state()
            ok, v = call(cfg, 'dm', 'get_density_matrix_distance2', gm.get_density_matrix_distance2, ins[i][0], ins[j][0])
            if not ok:
                nbad += 1
                if nbad > 5:
                    break
                continue
            v = to_np(v)
            # reference: Bloch vector of the difference (the reference analysis is linear; the difference of the two exactly-cast
            # inputs is formed in complex128, where it is exact or correctly rounded). Tolerance RELATIVE to the squared Bloch
            # distance: rho - sigma is one correctly rounded subtraction per entry (relative eps/2), followed by a sum of 2 d^2
            # squares (gamma_{2d^2}): relative error <= (2 d^2 + 2) eps <= C (d+2) eps for d <= 30. No absolute floor: all
            # squares are >= 1e-18 * eps^0, far above the underflow threshold of float32.
            # The exactly-cast inputs are density matrices up to the rounding of the cast: their traces differ by up to d*eps, which
            # is not small against t in single precision. The squared difference of the identity coefficients (Tr rho - Tr sigma)^2/(2d)
            # is a known property of the INPUT (zero for trace-one matrices) and part of the documented 'Frobenius distance over 2';
            # it is added to the expected value, not to the tolerance.
            cdiff = ref_analysis(ins[i][1] - ins[j][1]).real
            expd = float(np.sum(cdiff[:-1] ** 2) + cdiff[-1] ** 2)
            if cdiff[-1] ** 2 > 1e-3 * np.sum(cdiff[:-1] ** 2) and i != j:
                out.count('band_pairs_with_cast_trace_defect')
            tolr = C_SAFETY * EPS[tdt] * (d + 2) * expd
            if v.shape != () or not np.isfinite(v) or not (abs(complex(v) - expd) <= tolr):
                out.violation('dm/get_density_matrix_distance2/%s/wrong_value/near_maximally_mixed' % backend,
                              'squared distance of %s and %s is %s, squared Euclidean distance of the Bloch vectors is %.12g (relative tolerance %.3g)'
                              % (blabels[i], blabels[j], v, expd, C_SAFETY * EPS[tdt] * (d + 2)),
                              **cfg.detail(rho=B[i], sigma=B[j], got=v, expected=expd, tol=tolr))
                nbad += 1
                if nbad > 5:
                    break
            out.outcome(('dist2band', d, blabels[i], blabels[j], v.shape == () and bool(v > 0)), nontrivial=i != j)
        out.count('band_elements', len(B))
    # ---- Bloch-vector alphabet: b -> rho -> b -> rho   (real input dtypes; the vector is real by definition)
    if real:
        if dt == INT_DTYPE:
            vlabels, V = bloch_alphabet_int(d)
        else:
            vlabels, V = bloch_alphabet(d, case['G'], env.rng('bloch', d))
        E = np.eye(d) / d
        for bl, calls in batchings(len(V), case['deep']):
            for lay in layouts(case['deep']):
                cfg = Cfg(out, case, bl, lay, vlabels)
                for idx in calls:
                    nel = int(np.size(idx))
                    out.state(nel)
                    xin, exact = make_input(backend, dt, V[idx], lay)
                    r_ref = E + np.einsum('...i,iab->...ab', exact, ref_gellmann(d)[:-1])
                    ok, r1 = call(cfg, 'bloch', 'gellmann_basis_to_dm', gm.gellmann_basis_to_dm, xin)
                    if not ok or not compare(cfg, 'bloch', 'gellmann_basis_to_dm', r1, r_ref, tol_of(tdt, d, 1, 1), idx, V, grp_mat(d)):
                        continue
                    r1n = to_np(r1).astype(np.complex128)
                    tr = np.trace(r1n, axis1=-2, axis2=-1)
                    if np.abs(tr - 1).max() > tol_of(tdt, d, 1, 1):
                        out.violation('bloch/gellmann_basis_to_dm/%s/not_trace_one' % backend, 'gellmann_basis_to_dm returned trace %s' % (tr.reshape(-1)[0],),
                                      **cfg.detail(input=V[int(np.asarray(idx).reshape(-1)[0])]))
                    ok, b2 = call(cfg, 'bloch', 'dm_to_gellmann_basis', gm.dm_to_gellmann_basis, r1)
                    if not ok or not compare(cfg, 'bloch', 'dm_to_gellmann_basis', b2, exact.real, tol_of(tdt, d, 1, 2), idx, V, grp_coef(d), require_real=True):
                        continue
                    ok, r3 = call(cfg, 'bloch', 'gellmann_basis_to_dm', gm.gellmann_basis_to_dm, b2)
                    if not ok or not compare(cfg, 'bloch', 'gellmann_basis_to_dm', r3, r_ref, tol_of(tdt, d, 1, 3), idx, V, grp_mat(d), record=False):
                        continue
                    out.trace(nel)
    out.sample = {'kind': 'dm', 'd': d, 'backend': backend, 'dtype': dt, 'alphabet': labels[:2] + ['...'] + labels[-2:], 'alphabet_size': len(labels),
                  'pairs': len(labels) ** 2}
