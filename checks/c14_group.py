"""C14 - finite-group tables are groups; partition and tableau counts are exact.

Spaces (DESIGN.md section 4, C14) - every one is a finite domain that is enumerated completely:
  A  table    : every Cayley table numqi can construct with order <= 120 (both tiers - the whole domain of the property):
                  S_2..S_5, A_2..A_5, D_3..D_60, C_2..C_120, (Z/n)^* for every n with phi(n) <= 120 (n <= 462), Klein,
                  quaternion: 427 tables; thorough adds the axioms alone for A_6 (360) and S_6 (720)
                for each table T (N x N):
                  all pairs   : entries in range, Latin square, two-sided identity, two-sided inverses
                  all triples : T[T[a,b],c] == T[a,T[b,c]]
                  stated order, isomorphism invariants of the *named* group (element-order histogram, commuting pairs,
                  centre, class count) against a reference group built independently from its textbook definition
                  cayley_table_to_left_regular_form: 0/1 permutation matrices, L[g] e_h = e_{T[g,h]} for all pairs,
                  L[a] L[b] == L[T[a,b]] for all pairs, faithful (pairwise distinct), L[e] = 1
                  reduce_group_representation: every block unitary for all g, homomorphism for all pairs,
                  <chi_i,chi_j> = delta_ij (irreducible, pairwise inequivalent), #blocks = #conjugacy classes,
                  sum dim^2 = N
     relabel  : the same pipeline on a seed-dependent relabelling pi T pi^-1 of the table (generic atom: identity not
                at index 0, no lexicographic structure) - the only seed-dependent input of this check; 1 atom per
                table of order 3..24 (quick), 2 atoms per table of order 3..120 (thorough)
  B  pcount   : get_sym_group_num_irrep(N) for all N <= 60 (300 thorough) against Euler's pentagonal recurrence in
                python integers; the return_full table (N <= 30 / 60) against the restricted-partition recurrence
  C  diagram  : get_sym_group_young_diagram(N), N <= 16 (36 thorough): exactly the set of partitions of N produced by an
                independent recursive generator (shape, dtype, padding, no duplicates, no omissions)
  D  hook     : get_hook_length / get_young_diagram_mask / get_young_diagram_transpose for every partition of N <= 16
                (28 thorough) against arm+leg hooks computed cell by cell and against the Young-lattice path count
  E  tableaux : get_all_young_tableaux for every partition of N <= 10 (12 thorough): every tableau standard, pairwise
                distinct, the *set* equal to the set produced by an independent corner-removal generator, count ==
                get_hook_length == hook formula == lattice path count; N <= 7: == brute-force filtering of all N!
                fillings.  finalize: sum_lambda f(lambda)^2 == N! for every N (RSK identity) on the observed counts.
Option / argument-form axes (audit wave; every value of every axis is executed for every point of the space it belongs to):
  A  irrep_opt : reduce_group_representation(zero_eps in {default, 1e-10, 1e-3}) x representation dtype {int64, float64,
                complex128} for every table (and relabelled table) of order <= 24, same oracle and tolerance as the default call
                plus equal block dimensions
     argform   : every parameterised constructor with numpy-integer n / keyword n; S_n, A_n also with int / numpy-bool /
                positional `alternating`, the first form on a cold lru_cache and the plain call after it; == plain call
     layout    : cayley_table_to_left_regular_form on int32 / Fortran-ordered / strided / negatively strided tables of every
                order == the contiguous int64 call (and the engine's GUARD_LAYOUT oracle for that function)
  B  argform   : get_sym_group_num_irrep with numpy-integer N (cold cache), plain after it, int / numpy-bool / positional
                return_full, for every N of pcount and pfull
  D  argform   : get_hook_length with numpy int64 / int32 parts (cold cache), plain after it, int / numpy-bool check flag
     roundtrip : transpose(transpose(lam)) == lam, mask(transpose(lam)) == mask(lam)^T, mask sums == (lam, lam^T),
                hook_length(lam^T) == hook_length(lam) through the library's own ndarray outputs, check on and off
  reject      : every composition of N <= 5 that is not a partition (zero part or an increasing step), tuple and int64-array
                form: get_hook_length / get_all_young_tableaux / get_young_diagram_mask / get_young_diagram_transpose with
                check=True (default and explicit) must raise; repeated after the check=False call of the same composition
"""
import itertools
import math

import numpy as np

from mc import core

PROPERTY = 'C14'
GUARD = ['numqi.group._internal', 'numqi.group._symmetric']  # argument-immutability oracle (mc.seams.ImmutabilityGuard)
# memory-layout oracle only for the exact integer function: the blocks returned by reduce_group_representation are defined up to
# a change of basis inside degenerate eigenspaces (rounding decides), so bitwise/1e-6 agreement between layouts is not demanded
GUARD_LAYOUT = ['numqi.group._internal.cayley_table_to_left_regular_form']
LEVEL = 'model_checking'
RULE = ('finite domains enumerated completely: state = one point of the enumerated space (a group element, an ordered pair, an '
        'ordered triple of a Cayley table; an integer N; a partition; a standard tableau); transition = one call of a numqi '
        'function whose result is compared with the reference (table constructor, left-regular form, irrep reduction, '
        'partition count, diagram list, mask/transpose/hook length, tableau enumeration); trace = one object (table, N, shape) '
        'on which every stage of the pipeline was compared; non-trivial = group of order > 1 / reduction with a block of '
        'dimension > 1 / N beyond the hard-coded N<=3 branches / shape with more than one standard tableau.  Option and '
        'argument-form axes enumerated completely on top of these spaces: zero_eps {default,1e-10,1e-3} x dtype {int64,float64,'
        'complex128} of reduce_group_representation (order <= 24); numpy-integer / keyword / positional / int-flag / numpy-bool forms '
        'of the constructor, get_sym_group_num_irrep and get_hook_length parameters, first on a cold lru_cache, then the plain call '
        'again; int32 / Fortran / strided / negatively strided tables into cayley_table_to_left_regular_form; transpose / mask / '
        'hook-length round trips through the library\'s own ndarray outputs; every non-partition composition of N <= 5 must be '
        'rejected by all four diagram functions with check=True (also after the check=False call)')
ASSUMPTIONS = [
    'integer look-ups in numpy arrays, python integers and itertools.permutations are the trusted base',
    'reference groups are built from the textbook definitions (permutation composition + inversion parity, (r,s) pairs with '
    '(r1,s1)(r2,s2)=(r1+(-1)^s1 r2, s1^s2), addition mod n, multiplication of units mod n, Z2xZ2, Hamilton product)',
    '"the named group" is read as: same order, element-order histogram, number of commuting pairs, centre size and class '
    'count as the reference group (isomorphism invariants; they separate all groups in the catalogue from each other)',
    'the labelling of elements and the identity position are not part of the property',
    'tolerance for the floating-point irreps: see TOL_REP below',
    'zero_eps and the dtype / memory layout / integer width of an exactly representable argument are not part of the mathematical '
    'input: results are compared with the same oracle (irreps: same tolerance, which derives from the fixed 1e-4 cluster threshold, '
    'not from zero_eps) or for equality with the plain call (integer results)',
    'numpy integers / numpy bools / python ints used as flags are admissible forms of the documented int / bool parameters; the '
    'tuple form get_hook_length((3,2,1)) is not (varargs signature)',
    'an AssertionError from the shared validator check_young_diagram is the rejection of an inadmissible diagram; what the '
    'functions do with check=False on such input is outside the property and is not compared',
    'the memory-layout engine oracle is enabled for cayley_table_to_left_regular_form only: irreducible blocks are defined up to a '
    'change of basis, so layout-induced rounding may legitimately rotate them',
]
CHUNK = 1

EPS = float(np.finfo(np.float64).eps)


def tol_rep(N):
    """Tolerance for unitarity / homomorphism of the extracted blocks (max-abs entry).

    reduce_group_representation conjugates the representation by the eigenvectors V of a Hermitian commutant element
    H = sum_g R(g)^dagger (E_ij + E_ji) R(g) (or i(E_ij - E_ji)), |H|_2 <= 2N, and cuts V^dagger R V into the blocks of
    eigenvalue clusters; clusters are split only where neighbouring eigenvalues differ by more than 1e-4 (its own
    threshold).  Davis-Kahan: the computed invariant subspace is off by at most eps*|H|/gap <= eps*2N/1e-4, and the block
    inherits that error linearly (R unitary).  kappa = 2N/1e-4, c = 1e3:  tol = 1e3*eps*2N/1e-4  (5e-7 for N=120;
    observed on the pinned tree: < 5e-15).  A wrong block is off by O(1).
    """
    return 1e3 * EPS * 2 * N / 1e-4


# option axis of reduce_group_representation: (zero_eps, dtype of the representation); (None, int64) is the default call
REP_OPT_ORDER = 24
REP_OPT_VARIANTS = [(ze, dt) for ze in (None, 1e-10, 1e-3) for dt in ('int64', 'float64', 'complex128') if (ze, dt) != (None, 'int64')]
PENDING = set()   # additions whose oracle fires on the unchanged tree (reported, waiting for the repair of numqi)


# ------------------------------------------------------------------ reference: partitions, hooks, tableaux
def ref_partitions(n, maxpart=None):
    """all partitions of n as non-increasing tuples of positive ints (plain recursion)"""
    if maxpart is None:
        maxpart = n
    if n == 0:
        return [()]
    ret = []
    for first in range(min(n, maxpart), 0, -1):
        for rest in ref_partitions(n - first, first):
            ret.append((first,) + rest)
    return ret


def euler_partition_numbers(nmax):
    """p(0..nmax) by Euler's pentagonal number recurrence, python integers"""
    p = [1] + [0] * nmax
    for n in range(1, nmax + 1):
        s = 0
        k = 1
        while True:
            g1 = k * (3 * k - 1) // 2
            g2 = k * (3 * k + 1) // 2
            if g1 > n:
                break
            sign = 1 if (k % 2 == 1) else -1
            s += sign * p[n - g1]
            if g2 <= n:
                s += sign * p[n - g2]
            k += 1
        p[n] = s
    return p


def restricted_partition_table(N):
    """q[n][m] = number of partitions of n into parts <= m  (q[0][m]=1, q[n][0]=0 for n>0)"""
    q = [[0] * (N + 1) for _ in range(N + 1)]
    for m in range(N + 1):
        q[0][m] = 1
    for n in range(1, N + 1):
        for m in range(1, N + 1):
            q[n][m] = q[n][m - 1] + (q[n - m][m] if n >= m else 0)
    return q


def ref_conjugate(lam):
    return tuple(sum(1 for x in lam if x > j) for j in range(lam[0]))


def ref_hook_count(lam):
    """N! / prod(hooks) with hooks computed cell by cell as arm + leg + 1"""
    lamT = ref_conjugate(lam)
    prod = 1
    for i, li in enumerate(lam):
        for j in range(li):
            prod *= (li - j - 1) + (lamT[j] - i - 1) + 1
    n = sum(lam)
    assert math.factorial(n) % prod == 0
    return math.factorial(n) // prod


_PATH = {(): 1}


def ref_path_count(lam):
    """number of standard tableaux = number of paths in Young's lattice (independent of the hook formula)"""
    lam = tuple(x for x in lam if x > 0)
    if lam in _PATH:
        return _PATH[lam]
    s = 0
    for i in range(len(lam)):
        if i == len(lam) - 1 or lam[i] > lam[i + 1]:
            s += ref_path_count(lam[:i] + (lam[i] - 1,) + lam[i + 1:])
    _PATH[lam] = s
    return s


def ref_tableaux(lam):
    """all standard tableaux of shape lam as tuples of row tuples with entries 0..n-1 (largest entry sits in a corner)"""
    lam = tuple(lam)
    n = sum(lam)
    if n == 0:
        return [()]
    ret = []
    for i in range(len(lam)):
        if i == len(lam) - 1 or lam[i] > lam[i + 1]:
            sub = lam[:i] + (lam[i] - 1,) + lam[i + 1:]
            sub_s = tuple(x for x in sub if x > 0)
            for t in ref_tableaux(sub_s):
                rows = [list(r) for r in t] + [[] for _ in range(len(lam) - len(t))]
                rows[i].append(n - 1)
                ret.append(tuple(tuple(r) for r in rows))
    return ret


def brute_tableaux(lam):
    """brute force: every filling of the shape with 0..n-1 in reading order, keep rows and columns increasing"""
    n = sum(lam)
    perms = np.array(list(itertools.permutations(range(n))), dtype=np.int64)
    cells = [(i, j) for i, li in enumerate(lam) for j in range(li)]
    pos = {c: k for k, c in enumerate(cells)}
    ok = np.ones(len(perms), dtype=bool)
    for (i, j), k in pos.items():
        if (i, j + 1) in pos:
            ok &= perms[:, k] < perms[:, pos[(i, j + 1)]]
        if (i + 1, j) in pos:
            ok &= perms[:, k] < perms[:, pos[(i + 1, j)]]
    ret = set()
    for p in perms[ok]:
        rows = []
        k = 0
        for li in lam:
            rows.append(tuple(int(x) for x in p[k:k + li]))
            k += li
        ret.add(tuple(rows))
    return ret


# ------------------------------------------------------------------ reference: groups
def _table_from_elements(elems, mul):
    idx = {e: i for i, e in enumerate(elems)}
    return np.array([[idx[mul(a, b)] for b in elems] for a in elems], dtype=np.int64)


def _perm_sign_even(p):
    inv = sum(1 for i in range(len(p)) for j in range(i + 1, len(p)) if p[i] > p[j])
    return inv % 2 == 0


def _quat_mul(a, b):
    a0, a1, a2, a3 = a
    b0, b1, b2, b3 = b
    return (a0 * b0 - a1 * b1 - a2 * b2 - a3 * b3, a0 * b1 + a1 * b0 + a2 * b3 - a3 * b2,
            a0 * b2 - a1 * b3 + a2 * b0 + a3 * b1, a0 * b3 + a1 * b2 - a2 * b1 + a3 * b0)


def ref_order(family, n):
    if family == 'symmetric':
        return math.factorial(n)
    if family == 'alternating':
        return math.factorial(n) // 2
    if family == 'dihedral':
        return 2 * n
    if family == 'cyclic':
        return n
    if family == 'multiplicative':
        return sum(1 for x in range(1, n + 1) if math.gcd(x, n) == 1)
    return {'klein': 4, 'quaternion': 8}[family]


def ref_group_table(family, n):
    """reference Cayley table of the named group, from the textbook definition (own labelling)"""
    if family in ('symmetric', 'alternating'):
        elems = [p for p in itertools.permutations(range(n)) if family == 'symmetric' or _perm_sign_even(p)]
        arr = np.array(elems, dtype=np.int64)
        # rank of a permutation as a base-n number -> index
        w = n ** np.arange(n - 1, -1, -1, dtype=np.int64)
        code = arr @ w
        order = np.argsort(code)
        comp = arr[:, arr]  # comp[i,j,:] = p_i o p_j
        cc = comp @ w
        return order[np.searchsorted(code[order], cc)].astype(np.int64)
    if family == 'dihedral':
        elems = [(r, s) for s in (0, 1) for r in range(n)]
        return _table_from_elements(elems, lambda a, b: ((a[0] + (-1) ** a[1] * b[0]) % n, a[1] ^ b[1]))
    if family == 'cyclic':
        return _table_from_elements(list(range(n)), lambda a, b: (a + b) % n)
    if family == 'multiplicative':
        elems = [x for x in range(1, n + 1) if math.gcd(x, n) == 1]
        return _table_from_elements(elems, lambda a, b: (a * b) % n)
    if family == 'klein':
        elems = [(0, 0), (0, 1), (1, 0), (1, 1)]
        return _table_from_elements(elems, lambda a, b: (a[0] ^ b[0], a[1] ^ b[1]))
    if family == 'quaternion':
        units = [(1, 0, 0, 0), (0, 1, 0, 0), (0, 0, 1, 0), (0, 0, 0, 1)]
        elems = units + [tuple(-x for x in u) for u in units]
        return _table_from_elements(elems, _quat_mul)
    raise ValueError(family)


def table_axioms(T):
    """pure look-up verification of the group axioms. Returns dict(failure class -> literal witness) (empty = group),
    the identity index and the inverse map (None if undefined)."""
    bad = {}
    N = T.shape[0]
    ar = np.arange(N)
    if T.min() < 0 or T.max() >= N:
        a, b = np.argwhere((T < 0) | (T >= N))[0]
        bad['not_closed'] = {'a': int(a), 'b': int(b), 'entry': int(T[a, b])}
        return bad, None, None
    rows_ok = np.all(np.sort(T, axis=1) == ar, axis=1)
    cols_ok = np.all(np.sort(T, axis=0) == ar[:, None], axis=0)
    if not rows_ok.all():
        bad['not_latin_square'] = {'row': int(np.argmin(rows_ok)), 'content': T[int(np.argmin(rows_ok))]}
    elif not cols_ok.all():
        bad['not_latin_square'] = {'column': int(np.argmin(cols_ok)), 'content': T[:, int(np.argmin(cols_ok))]}
    ide = [e for e in range(N) if np.array_equal(T[e], ar) and np.array_equal(T[:, e], ar)]
    e = None
    inv = None
    if len(ide) != 1:
        bad['no_identity'] = {'two_sided_identities': ide, 'left_identities': [x for x in range(N) if np.array_equal(T[x], ar)],
                              'right_identities': [x for x in range(N) if np.array_equal(T[:, x], ar)]}
    else:
        e = ide[0]
        inv = np.full(N, -1, dtype=np.int64)
        for a in range(N):
            cand = np.nonzero((T[a] == e) & (T[:, a] == e))[0]
            if len(cand) == 1:
                inv[a] = cand[0]
        if (inv < 0).any():
            a = int(np.argmax(inv < 0))
            bad['no_inverse'] = {'element': a, 'identity': e, 'row': T[a], 'column': T[:, a]}
            inv = None
    # associativity over all triples, one slab of N^2 triples per a
    for a in range(N):
        lhs = T[T[a]]          # [b,c] -> T[T[a,b],c]
        rhs = T[a][T]          # [b,c] -> T[a,T[b,c]]
        if not np.array_equal(lhs, rhs):
            b, c = np.argwhere(lhs != rhs)[0]
            bad['not_associative'] = {'a': a, 'b': int(b), 'c': int(c), '(ab)c': int(lhs[b, c]), 'a(bc)': int(rhs[b, c])}
            break
    return bad, e, inv


def group_invariants(T, e, inv):
    """isomorphism invariants of a verified group table"""
    N = T.shape[0]
    order = np.zeros(N, dtype=np.int64)
    cur = np.arange(N)
    ar = np.arange(N)
    for k in range(1, N + 1):
        hit = (cur == e) & (order == 0)
        order[hit] = k
        if (order > 0).all():
            break
        cur = T[cur, ar]  # cur = cur * a  (a^k -> a^(k+1))
    hist = tuple(sorted(order.tolist()))
    commuting = int((T == T.T).sum())
    centre = int(np.all(T == T.T, axis=1).sum())
    # conjugacy classes: orbit of a under g a g^-1
    conj = T[T, inv[:, None]]  # [g,a] = T[T[g,a], inv[g]]
    classes = {tuple(sorted(set(conj[:, a].tolist()))) for a in range(N)}
    return {'orders': hist, 'commuting_pairs': commuting, 'centre': centre, 'classes': len(classes)}, sorted(classes, key=lambda c: (len(c), c))


_REF_INV = {}


def ref_invariants(family, n):
    k = (family, n)
    if k not in _REF_INV:
        R = ref_group_table(family, n)
        bad, e, inv = table_axioms(R)
        assert not bad, ('reference group is not a group', family, n, bad)
        _REF_INV[k] = group_invariants(R, e, inv)[0]
    return _REF_INV[k]


CONSTRUCTOR = {
    'symmetric': 'get_symmetric_group_cayley_table', 'alternating': 'get_symmetric_group_cayley_table',
    'dihedral': 'get_dihedral_group_cayley_table', 'cyclic': 'get_cyclic_group_cayley_table',
    'multiplicative': 'get_multiplicative_group_cayley_table', 'klein': 'get_klein_four_group_cayley_table',
    'quaternion': 'get_quaternion_cayley_table',
}


CONSTRUCTOR_FN = ('symmetric', 'alternating', 'dihedral', 'cyclic', 'multiplicative')   # families with a parameter n


def construct(numqi, family, n):
    g = numqi.group
    if family == 'symmetric':
        return g.get_symmetric_group_cayley_table(n)
    if family == 'alternating':
        return g.get_symmetric_group_cayley_table(n, alternating=True)
    if family == 'dihedral':
        return g.get_dihedral_group_cayley_table(n)
    if family == 'cyclic':
        return g.get_cyclic_group_cayley_table(n)
    if family == 'multiplicative':
        return g.get_multiplicative_group_cayley_table(n)
    if family == 'klein':
        return g.get_klein_four_group_cayley_table()
    if family == 'quaternion':
        return g.get_quaternion_cayley_table()
    raise ValueError(family)


def label(family, n):
    return {'symmetric': 'S_%s', 'alternating': 'A_%s', 'dihedral': 'D_%s', 'cyclic': 'C_%s', 'multiplicative': '(Z/%s)^*',
            'klein': 'V_4%.0s', 'quaternion': 'Q_8%.0s'}[family] % (n,)


# ------------------------------------------------------------------ cases
def phi(n):
    return sum(1 for x in range(1, n + 1) if math.gcd(x, n) == 1)


def table_catalogue(tier):
    """every table numqi can construct whose order is <= 120 (both tiers: this is the property's whole domain)"""
    cat = [('klein', 0), ('quaternion', 0)]
    cat += [('cyclic', n) for n in range(2, 121)]
    cat += [('multiplicative', n) for n in range(3, 463) if phi(n) <= 120]   # phi(n) > 120 for every n > 462
    cat += [('dihedral', n) for n in range(3, 61)]
    cat += [('alternating', n) for n in range(2, 6)]
    cat += [('symmetric', n) for n in range(2, 6)]
    return cat


BOUNDS = {
    #            pcount pfull diagram hook tableaux relabel atoms / max order
    'quick':    dict(pcount=60, pfull=30, diagram=16, hook=16, tableaux=10, atoms=1, relabel_order=24),
    'thorough': dict(pcount=300, pfull=60, diagram=36, hook=28, tableaux=12, atoms=2, relabel_order=120),
}


def build_cases(tier, seed):
    B = BOUNDS[tier]
    cases = []
    info = {'bounds': dict(B)}
    # B: partition counts
    for lo in range(1, B['pcount'] + 1, 30):
        cases.append({'kind': 'pcount', 'lo': lo, 'hi': min(lo + 29, B['pcount'])})
    cases.append({'kind': 'pfull', 'lo': 1, 'hi': B['pfull']})
    # C: diagrams
    for N in range(1, B['diagram'] + 1):
        cases.append({'kind': 'diagram', 'N': N})
    # D: hook lengths
    for N in range(1, B['hook'] + 1):
        cases.append({'kind': 'hook', 'N': N})
    # E: tableaux, one case per shape
    nshape = 0
    for N in range(1, B['tableaux'] + 1):
        for lam in ref_partitions(N):
            cases.append({'kind': 'tableaux', 'N': N, 'shape': list(lam)})
            nshape += 1
    cases.append({'kind': 'reject', 'N_max': 5})
    info['tableaux_shapes'] = nshape
    info['tableaux_bruteforce_N_max'] = 7
    # A: tables (simplest first), then relabelled atoms
    cat = sorted(table_catalogue(tier), key=lambda fn: (ref_order(*fn), fn))
    info['tables'] = len(cat)
    info['table_max_order'] = max(ref_order(*fn) for fn in cat)
    for fam, n in cat:
        cases.append({'kind': 'table', 'family': fam, 'n': n, 'relabel': 0, 'pipeline': 'full'})
    nrel = 0
    for fam, n in cat:
        if 2 < ref_order(fam, n) <= B['relabel_order']:
            for k in range(1, B['atoms'] + 1):
                cases.append({'kind': 'table', 'family': fam, 'n': n, 'relabel': k, 'pipeline': 'full'})
                nrel += 1
    info['relabelled_tables'] = nrel
    info['generic_atoms'] = ('relabelling permutations env.rng("relabel", family, n, k).permutation(order), k=1..%d, for every table of '
                             'order 3..%d' % (B['atoms'], B['relabel_order']))
    if tier != 'quick':
        cases.append({'kind': 'table', 'family': 'alternating', 'n': 6, 'relabel': 0, 'pipeline': 'axioms'})
        cases.append({'kind': 'table', 'family': 'symmetric', 'n': 6, 'relabel': 0, 'pipeline': 'axioms'})
        info['axioms_only_beyond_order_120'] = ['A_6 (360)', 'S_6 (720)']
    info['option_axes'] = {'reduce_group_representation(zero_eps, dtype), order <= %d' % REP_OPT_ORDER: [list(v) for v in REP_OPT_VARIANTS],
                           'table argument forms': 5, 'left-regular table layouts': 5, 'num_irrep argument forms': [6, 4], 'hook_length argument forms': 5,
                           'invalid diagrams (compositions of N<=5 that are not partitions)': 268, 'pending': sorted(PENDING)}
    info['exhaustive'] = True
    info['note'] = ('every listed finite domain is enumerated completely: all element pairs and triples of every table, all N, all '
                    'partitions, all tableaux; the relabelled tables are generic atoms (seed dependent), everything else is seed independent')
    return cases, info


def prepare(env):
    for lam in ref_partitions(8):
        ref_path_count(lam)


# ------------------------------------------------------------------ run
def _call(out, key, what, fn, *args, **kw):
    """call a numqi function on an admissible input: every exception is a violation (README rules)"""
    out.trans()
    try:
        return True, fn(*args, **kw)
    except Exception as e:  # noqa
        site = core.exc_site(e)
        out.violation('%s/%s' % (key, type(e).__name__), '%s raised %s: %s (at %s)' % (what, type(e).__name__, str(e)[:200], site),
                      args=[_brief(a) for a in args], kwargs=kw)
        return False, None


def _brief(a):
    """literal argument for the replay detail; big arrays are named by shape (the case itself rebuilds them)"""
    if isinstance(a, np.ndarray):
        return a if a.size <= 1000 else 'ndarray%s' % (a.shape,)
    if isinstance(a, (int, str, tuple, list, bool)) or a is None:
        return a
    return getattr(a, '__name__', type(a).__name__)


def check_blocks(out, rsite, irr, T, N, name, detail, nclasses):
    """oracle for the result of reduce_group_representation on the left regular form of the verified table T: every block
    unitary for all g, homomorphism for all pairs, characters orthonormal, sum dim^2 = N, #blocks = #classes.
    Returns the sorted dimensions (None if the result is not a list of (N,d,d) arrays)."""
    if not (isinstance(irr, list) and all(isinstance(x, np.ndarray) and x.ndim == 3 and x.shape[0] == N and x.shape[1] == x.shape[2] for x in irr)):
        out.violation(rsite + '/shape', 'blocks of %s are not a list of (N,d,d) arrays: %s' % (name, [getattr(x, 'shape', None) for x in irr][:10]), **detail)
        return None
    tol = tol_rep(N)
    dims = sorted(int(x.shape[1]) for x in irr)
    chars = []
    for x in irr:
        d = x.shape[1]
        x = x.astype(np.complex128)
        out.state(N + N * N)
        out.count('pairs_irrep', N * N)
        if not np.isfinite(x).all():
            out.violation(rsite + '/nan', 'block of dimension %d of %s contains NaN/Inf' % (d, name), dim=d, **detail)
            continue
        du = float(np.abs(x @ x.transpose(0, 2, 1).conj() - np.eye(d)).max())
        if du > tol:
            out.violation(rsite + '/not_unitary', 'block of dimension %d of %s: max |R R^dagger - 1| = %.3g > tol %.3g' % (d, name, du, tol), dim=d, dev=du, tol=tol, **detail)
        dh = 0.0
        wa = None
        for a in range(N):
            dv = np.abs(x[a] @ x - x[T[a]]).max(axis=(1, 2))   # over all b
            if dv.max() > dh:
                dh = float(dv.max())
                wa = (a, int(np.argmax(dv)))
        if dh > tol:
            out.violation(rsite + '/not_homomorphism', 'block of dimension %d of %s: |R(a)R(b) - R(ab)| = %.3g > tol %.3g at a=%d b=%d' % (d, name, dh, tol, wa[0], wa[1]),
                          dim=d, dev=dh, tol=tol, a=wa[0], b=wa[1], **detail)
        chars.append(np.trace(x, axis1=1, axis2=2))
    if len(chars) == len(irr):
        ch = np.stack(chars)
        gram = ch @ ch.conj().T / N
        dd = np.array([x.shape[1] for x in irr], dtype=np.float64)
        # each character entry is a sum of d diagonal entries with error <= tol each; the inner product is an average over
        # N products of two such sums with |chi| <= d:  error <= 2 d_i d_j tol (+ second order)
        tolg = 2 * dd[:, None] * dd[None, :] * tol + 1e3 * EPS * N
        dev = np.abs(gram - np.eye(len(irr)))
        if (np.diag(dev) > np.diag(tolg)).any():
            i = int(np.argmax(np.diag(dev) - np.diag(tolg)))
            out.violation(rsite + '/block_not_irreducible', 'block %d (dimension %d) of %s has <chi,chi> = %.6g != 1' % (i, irr[i].shape[1], name, gram[i, i].real),
                          block=i, dim=int(irr[i].shape[1]), norm=float(gram[i, i].real), **detail)
        off = dev - np.diag(np.diag(dev))
        if (off > tolg).any():
            i, j = np.argwhere(off > tolg)[0]
            out.violation(rsite + '/blocks_equivalent', 'blocks %d and %d of %s are not inequivalent: <chi_i,chi_j> = %.6g' % (i, j, name, abs(gram[i, j])),
                          i=int(i), j=int(j), inner=float(abs(gram[i, j])), **detail)
    s2 = sum(d * d for d in dims)
    if s2 != N:
        out.violation(rsite + '/sum_dim_squared', 'blocks of %s have dimensions %s, sum of squares %d != group order %d' % (name, dims, s2, N), dims=dims, **detail)
    if len(irr) != nclasses:
        out.violation(rsite + '/number_of_irreps', '%s has %d conjugacy classes but %d irreducible blocks were returned (dims %s)' % (name, nclasses, len(irr), dims), dims=dims, classes=nclasses, **detail)
    return dims


def run_table(case, out, env, numqi):
    fam, n, k_rel = case['family'], case['n'], case['relabel']
    g = numqi.group
    name = label(fam, n)
    site = 'table/%s' % CONSTRUCTOR[fam]
    ok, T = _call(out, site, 'constructing the Cayley table of %s' % name, construct, numqi, fam, n)
    if not ok:
        return
    Nref = ref_order(fam, n)
    if not (isinstance(T, np.ndarray) and T.ndim == 2 and T.shape[0] == T.shape[1] and T.dtype.kind in 'iu'):
        out.violation(site + '/not_a_table', 'Cayley table of %s is not a square integer array' % name, family=fam, n=n, got=repr(T)[:300])
        return
    if T.shape[0] != Nref:
        out.violation(site + '/wrong_order', 'Cayley table of %s has order %d, the group has order %d' % (name, T.shape[0], Nref), family=fam, n=n, table=T if T.size < 700 else T.shape)
        return
    ok, T2 = _call(out, site, 'constructing the Cayley table of %s a second time' % name, construct, numqi, fam, n)
    if ok and not np.array_equal(T, T2):
        out.violation(site + '/not_reproducible', 'two constructions of %s differ' % name, family=fam, n=n)
    if ok and T2 is T:
        out.count('constructor_returns_shared_cached_array')  # observation only: a caller writing into it corrupts later calls
    dt0 = T.dtype
    T = np.array(T, dtype=np.int64)  # private copy: the S_n/A_n tables are shared lru_cache objects
    N = Nref
    if not k_rel and not case.get('probe') and fam in CONSTRUCTOR_FN:
        # argument forms of the normalised parameters (they feed lru_cache keys for S_n / A_n): numpy integer n, int / numpy
        # bool / positional `alternating`; the first form is evaluated on a cold cache, the plain call again after it
        from mc import seams
        alt = fam == 'alternating'
        fn = getattr(g, CONSTRUCTOR[fam])
        if fam in ('symmetric', 'alternating'):
            forms = [('np_int64_n_int_flag_cold_cache', (np.int64(n),), {'alternating': int(alt)}), ('plain_after_numpy_form', (n,), {'alternating': alt}),
                     ('positional_flag', (n, alt), {}), ('np_bool_flag', (n,), {'alternating': np.bool_(alt)}), ('np_int32_n', (np.int32(n),), {'alternating': alt})]
            seams.clear_numqi_caches()
        else:
            forms = [('np_int64_n', (np.int64(n),), {}), ('keyword_n', (), {'n': n})]
        for form, a, kw in forms:
            asite = 'argform/%s' % CONSTRUCTOR[fam]
            ok, Tf = _call(out, asite, 'Cayley table of %s, argument form %s' % (name, form), fn, *a, **kw)
            out.count('table_argument_forms')
            if ok and not (isinstance(Tf, np.ndarray) and Tf.dtype == dt0 and np.array_equal(Tf, T)):
                out.violation(asite + '/differs_from_plain_int_call', 'Cayley table of %s: argument form %s gives another result than the plain python call' % (name, form),
                              family=fam, n=n, form=form, got=Tf if getattr(Tf, 'size', 1e9) < 700 else getattr(Tf, 'shape', repr(Tf)[:100]))
    if k_rel:
        # generic atom: relabel the elements, T'[pi a, pi b] = pi T[a,b]
        pi = env.rng('relabel', fam, n, k_rel).permutation(N)
        Tp = np.empty_like(T)
        Tp[pi[:, None], pi[None, :]] = pi[T]
        T = Tp
        site = 'relabel/%s' % CONSTRUCTOR[fam]
    detail = {'family': fam, 'n': n, 'relabel': k_rel}
    if N <= 24:
        detail['table'] = T
    # ---------------- axioms: all pairs, all triples
    bad, e, inv = table_axioms(T)
    out.state(N + N * N + N ** 3)
    out.count('elements', N)
    out.count('pairs_axioms', N * N)
    out.count('triples_associativity', N ** 3)
    for cls, wit in bad.items():
        out.violation('%s/%s' % (site, cls), 'Cayley table of %s: %s, witness %s' % (name, cls, wit), witness=wit, **detail)
    out.outcome(('table', T), nontrivial=N > 1)
    if bad:
        return
    got, classes = group_invariants(T, e, inv)
    want = ref_invariants(fam, n)
    if got != want:
        diff = {k: (got[k], want[k]) for k in got if got[k] != want[k]}
        out.violation('%s/not_the_named_group' % site, 'table is a group of order %d but not %s: invariants (got, reference) %s' % (N, name, str(diff)[:300]),
                      got=got, reference=want, **detail)
    out.outcome(('invariants', fam, got['orders'], got['classes'], got['commuting_pairs']), nontrivial=got['classes'] < N)
    if case['pipeline'] == 'axioms':
        out.trace()
        out.sample = {'kind': 'table', 'group': name, 'order': N, 'pipeline': 'axioms only', 'classes': got['classes']}
        return
    # ---------------- left regular form
    lsite = ('relabel' if k_rel else 'regular') + '/cayley_table_to_left_regular_form'
    ok, L = _call(out, lsite, 'left regular form of %s' % name, g.cayley_table_to_left_regular_form, T.copy())
    if not ok:
        return
    if not (isinstance(L, np.ndarray) and L.shape == (N, N, N)):
        out.violation(lsite + '/shape', 'left regular form of %s has shape %s' % (name, getattr(L, 'shape', None)), **detail)
        return
    if N <= 24:
        ok, L2 = _call(out, lsite, 'left regular form of %s from a tuple of tuples' % name, g.cayley_table_to_left_regular_form,
                       tuple(tuple(r) for r in T.tolist()))
        if ok and not np.array_equal(L, L2):
            out.violation(lsite + '/tuple_input_differs', 'tuple-of-tuples input (documented) gives another result than the array', **detail)
    if not case.get('probe'):
        # memory layout / integer width of the table are not part of the input: int32, Fortran order, a strided view into a
        # larger array (every second row and column) and a reversed view of the reversed table must give the same matrices
        big = np.full((2 * N, 2 * N), -1, dtype=np.int64)
        big[::2, ::2] = T
        rev = np.ascontiguousarray(T[::-1, ::-1])
        for form, Tv in (('int32', T.astype(np.int32)), ('fortran_order', np.asfortranarray(T)), ('strided_view', big[::2, ::2]),
                         ('negative_strides', rev[::-1, ::-1]), ('int32_fortran_strided', np.asfortranarray(big.astype(np.int32))[::2, ::2])):
            assert np.array_equal(Tv, T) and (N == 1 or form in ('int32', 'fortran_order') or not Tv.flags['C_CONTIGUOUS'])
            ok, Lv = _call(out, lsite, 'left regular form of %s from a table given as %s' % (name, form), g.cayley_table_to_left_regular_form, Tv)
            out.count('regular_table_layouts')
            if ok and not (isinstance(Lv, np.ndarray) and Lv.dtype == L.dtype and np.array_equal(Lv, L)):
                out.violation(lsite + '/depends_on_table_layout_or_width', 'left regular form of %s: table given as %s gives another result than the contiguous int64 table' % (name, form),
                              form=form, **detail)
    out.state(N * N)
    out.count('pairs_regular', N * N)
    perm_ok = bool(np.isin(L, (0, 1)).all() and (L.sum(axis=1) == 1).all() and (L.sum(axis=2) == 1).all())
    if not perm_ok:
        out.violation(lsite + '/not_permutation_matrices', 'left regular form of %s is not a list of 0/1 permutation matrices' % name, **detail)
        return
    P = np.argmax(L, axis=1)  # P[g,h] = row of the 1 in column h: L[g] e_h = e_{P[g,h]}
    if not np.array_equal(P, T):
        a, b = np.argwhere(P != T)[0]
        out.violation(lsite + '/wrong_action', 'L[g] e_h != e_{g h} for %s at g=%d h=%d: got e_%d, table says %d' % (name, a, b, P[a, b], T[a, b]), g=int(a), h=int(b), **detail)
    # homomorphism on all pairs, as permutations: (L[a] L[b]) e_h = e_{P[a,P[b,h]]}
    for a in range(N):
        comp = P[a][P]            # [b,h] -> P[a,P[b,h]]
        if not np.array_equal(comp, P[T[a]]):
            b = int(np.argwhere((comp != P[T[a]]).any(axis=1))[0, 0])
            out.violation(lsite + '/not_homomorphism', 'L[a] L[b] != L[ab] for %s at a=%d b=%d' % (name, a, b), a=a, b=b, **detail)
            break
    if len({P[a].tobytes() for a in range(N)}) != N:
        out.violation(lsite + '/not_faithful', 'two elements of %s have the same left-regular matrix' % name, **detail)
    if not np.array_equal(P[e], np.arange(N)):
        out.violation(lsite + '/identity_not_identity', 'L[e] is not the identity matrix for %s' % name, identity=e, **detail)
    # ---------------- irreducible blocks
    rsite = ('relabel' if k_rel else 'irrep') + '/reduce_group_representation'
    ok, irr = _call(out, rsite, 'reduce_group_representation(left regular form of %s)' % name, g.reduce_group_representation, L.copy())
    if not ok:
        return
    dims = check_blocks(out, rsite, irr, T, N, name, detail, got['classes'])
    if dims is None:
        return
    out.outcome(('irreps', tuple(dims)), nontrivial=max(dims) > 1)
    # ---------------- option / dtype axis of reduce_group_representation (order <= REP_OPT_ORDER): the documented zero_eps and
    # the dtype of the (exactly unitary 0/1) representation are not part of the mathematical input, so the same oracle applies
    # with the same tolerance (the cluster threshold 1e-4 that tol_rep is derived from does not depend on zero_eps)
    if N <= REP_OPT_ORDER and not case.get('probe'):
        osite = ('relabel_opt' if k_rel else 'irrep_opt') + '/reduce_group_representation'
        for zero_eps, dt in REP_OPT_VARIANTS:
            kw = {} if zero_eps is None else {'zero_eps': zero_eps}
            vdetail = dict(detail, zero_eps=zero_eps, dtype=dt)
            ok, irr_v = _call(out, osite, 'reduce_group_representation(left regular form of %s as %s, zero_eps=%s)' % (name, dt, zero_eps),
                              g.reduce_group_representation, L.astype(dt), **kw)
            if not ok:
                continue
            out.count('irrep_option_variants')
            dims_v = check_blocks(out, osite, irr_v, T, N, name, vdetail, got['classes'])
            if dims_v is not None and dims_v != dims:
                out.violation(osite + '/dims_differ_from_default_call', '%s: zero_eps=%s dtype=%s gives block dimensions %s, the default call %s' % (name, zero_eps, dt, dims_v, dims),
                              dims=dims_v, default_dims=dims, **vdetail)
            if dims_v is not None:
                out.outcome(('irreps_opt', zero_eps, dt, tuple(dims_v)), nontrivial=max(dims_v) > 1)
    out.trace()
    out.sample = {'kind': 'table', 'group': name, 'relabel': k_rel, 'order': N, 'classes': got['classes'], 'irrep_dims': dims, 'triples': N ** 3}


def strip(row):
    return tuple(int(x) for x in row if x > 0)


def run_case(case, out, env):
    import numqi
    from mc import seams
    g = numqi.group
    kind = case['kind']
    if kind == 'table':
        if case['relabel']:
            # a relabelled table is an extra (generic) input: it is only meaningful if the pipeline is sound on the
            # table as constructed; otherwise the finding belongs to the un-relabelled case and is not repeated here
            probe = core.Out()
            run_table(dict(case, relabel=0, probe=True), probe, env, numqi)
            if probe.n_violations:
                out.count('relabel_skipped_base_case_fails')
                return
        run_table(case, out, env, numqi)

    elif kind == 'pcount':
        p = euler_partition_numbers(case['hi'])
        for N in range(case['lo'], case['hi'] + 1):
            out.state()
            ok, r = _call(out, 'pcount/get_sym_group_num_irrep', 'get_sym_group_num_irrep(%d)' % N, g.get_sym_group_num_irrep, N)
            if not ok:
                continue
            if not (isinstance(r, (int, np.integer)) and int(r) == p[N]):
                out.violation('pcount/get_sym_group_num_irrep/wrong_count', 'number of irreps of S_%d: got %r, p(%d) = %d' % (N, r, N, p[N]), N=N, got=repr(r), expected=p[N])
            out.outcome(('p', N, int(r) if isinstance(r, (int, np.integer)) else repr(r)), nontrivial=N > 3)
            # argument forms of the normalised (lru_cache key) parameters; the first on a cold cache, the plain call again after it
            seams.clear_numqi_caches()
            for form, a, kw in (('np_int64_N_cold_cache', (np.int64(N),), {}), ('plain_after_numpy_form', (N,), {}), ('int_flag', (N,), {'return_full': 0}),
                                ('positional_np_bool_flag', (N, np.bool_(False)), {}), ('np_int32_N', (np.int32(N),), {}), ('keyword_N', (), {'N': N})):
                ok, rf = _call(out, 'argform/get_sym_group_num_irrep', 'get_sym_group_num_irrep, argument form %s, N=%d' % (form, N), g.get_sym_group_num_irrep, *a, **kw)
                out.count('pcount_argument_forms')
                if ok and not (isinstance(rf, (int, np.integer)) and int(rf) == p[N]):
                    out.violation('argform/get_sym_group_num_irrep/differs_from_plain_int_call', 'number of irreps of S_%d, argument form %s: got %r, p(%d) = %d' % (N, form, rf, N, p[N]),
                                  N=N, form=form, got=repr(rf), expected=p[N])
            out.trace()
        out.sample = {'kind': 'pcount', 'N': case['hi'], 'p(N)': p[case['hi']]}

    elif kind == 'pfull':
        for N in range(case['lo'], case['hi'] + 1):
            out.state((N + 1) * N)
            ok, r = _call(out, 'pcount/get_sym_group_num_irrep', 'get_sym_group_num_irrep(%d, return_full=True)' % N, g.get_sym_group_num_irrep, N, return_full=True)
            if not ok:
                continue
            q = np.array(restricted_partition_table(N), dtype=object)
            try:
                r0, tab = r
                tab = np.asarray(tab)
                good_shape = tab.shape == (N + 1, N + 1)
            except Exception:
                good_shape = False
            if not good_shape:
                out.violation('pcount/get_sym_group_num_irrep/full_table_shape', 'return_full=True for N=%d does not give (count, (N+1,N+1) table)' % N, N=N, got=repr(r)[:300])
                continue
            if int(r0) != q[N, N]:
                out.violation('pcount/get_sym_group_num_irrep/wrong_count', 'number of irreps of S_%d (return_full): got %r, p(%d) = %d' % (N, r0, N, q[N, N]), N=N, got=int(r0), expected=int(q[N, N]))
            # columns m>=1: table[n,m] = number of partitions of n into parts <= m (column 0 is a filler of the recurrence)
            sub = tab[:, 1:].astype(object)
            if not np.array_equal(sub, q[:, 1:]):
                a, b = np.argwhere(sub != q[:, 1:])[0]
                out.violation('pcount/get_sym_group_num_irrep/full_table_entry', 'full table for N=%d: entry [n=%d,m=%d] = %s, partitions of n into parts <= m: %s' % (N, a, b + 1, sub[a, b], q[a, b + 1]),
                              N=N, n=int(a), m=int(b + 1), got=int(sub[a, b]), expected=int(q[a, b + 1]))
            out.outcome(('pfull', N, tab), nontrivial=N > 3)
            tab0 = np.array(tab)   # private copy: the result is a shared lru_cache object
            seams.clear_numqi_caches()
            for form, a, kw in (('np_int64_N_int_flag_cold_cache', (np.int64(N),), {'return_full': 1}), ('plain_after_numpy_form', (N,), {'return_full': True}),
                                ('positional_flag', (N, True), {}), ('np_bool_flag', (N,), {'return_full': np.bool_(True)})):
                ok, rf = _call(out, 'argform/get_sym_group_num_irrep', 'get_sym_group_num_irrep, argument form %s, N=%d' % (form, N), g.get_sym_group_num_irrep, *a, **kw)
                out.count('pfull_argument_forms')
                if not ok:
                    continue
                same = isinstance(rf, tuple) and len(rf) == 2 and isinstance(rf[0], (int, np.integer)) and int(rf[0]) == int(r0) and isinstance(rf[1], np.ndarray) \
                    and rf[1].dtype == tab0.dtype and np.array_equal(rf[1], tab0)
                if not same:
                    out.violation('argform/get_sym_group_num_irrep/full_differs_from_plain_call', 'return_full table of S_%d, argument form %s: result differs from the plain call' % (N, form),
                                  N=N, form=form, got=repr(rf)[:300])
            out.trace()
        out.sample = {'kind': 'pfull', 'N': case['hi']}

    elif kind == 'diagram':
        N = case['N']
        ref = ref_partitions(N)
        out.state(len(ref))
        ok, Y = _call(out, 'diagram/get_sym_group_young_diagram', 'get_sym_group_young_diagram(%d)' % N, g.get_sym_group_young_diagram, N)
        if not ok:
            return
        if not (isinstance(Y, np.ndarray) and Y.ndim == 2 and Y.shape[1] == N and Y.dtype == np.int64):
            out.violation('diagram/get_sym_group_young_diagram/shape', 'diagram list for N=%d is not an int64 (#,N) array: %s %s' % (N, getattr(Y, 'shape', None), getattr(Y, 'dtype', None)), N=N)
            return
        rows = [tuple(int(x) for x in r) for r in Y]
        badrow = [r for r in rows if min(r) < 0 or sum(r) != N or any(r[i] < r[i + 1] for i in range(N - 1))]
        if badrow:
            out.violation('diagram/get_sym_group_young_diagram/not_a_partition', 'row %s of the diagram list for N=%d is not a zero-padded partition of N' % (badrow[0], N), N=N, row=badrow[0], diagrams=Y if N <= 8 else None)
        got = [strip(r) for r in rows]
        if len(set(got)) != len(got):
            dup = sorted({r for r in got if got.count(r) > 1})[0]
            out.violation('diagram/get_sym_group_young_diagram/duplicate', 'partition %s of %d is listed more than once' % (dup, N), N=N, partition=dup, diagrams=Y if N <= 8 else None)
        missing = sorted(set(ref) - set(got))
        extra = sorted(set(got) - set(ref))
        if missing:
            out.violation('diagram/get_sym_group_young_diagram/missing', 'partition %s of %d is not listed (%d missing)' % (missing[0], N, len(missing)), N=N, partition=missing[0], diagrams=Y if N <= 8 else None)
        if extra and not badrow:
            out.violation('diagram/get_sym_group_young_diagram/extra', 'row %s is not a partition of %d' % (extra[0], N), N=N, row=extra[0])
        ok, cnt = _call(out, 'pcount/get_sym_group_num_irrep', 'get_sym_group_num_irrep(%d)' % N, g.get_sym_group_num_irrep, N)
        if ok and int(cnt) != len(rows):
            out.violation('diagram/get_sym_group_young_diagram/count_differs_from_num_irrep', 'N=%d: %d diagrams but get_sym_group_num_irrep says %d' % (N, len(rows), cnt), N=N)
        out.outcome(('diagram', N, Y), nontrivial=N > 3)
        out.trace()
        out.sample = {'kind': 'diagram', 'N': N, 'partitions': len(ref)}

    elif kind == 'hook':
        N = case['N']
        for lam in ref_partitions(N):
            out.state()
            want = ref_path_count(lam)
            want2 = ref_hook_count(lam)
            assert want == want2, ('reference models disagree', lam, want, want2)
            ok, h = _call(out, 'hook/get_hook_length', 'get_hook_length%s' % (lam,), g.get_hook_length, *lam)
            if ok:
                if not (isinstance(h, (int, np.integer)) and int(h) == want):
                    out.violation('hook/get_hook_length/wrong_count', 'get_hook_length%s = %r, number of standard tableaux = %d' % (lam, h, want), shape=lam, got=repr(h), expected=want)
                out.outcome(('hook', lam, int(h) if isinstance(h, (int, np.integer)) else repr(h)), nontrivial=want > 1)
            ok, h2 = _call(out, 'hook/get_hook_length', 'get_hook_length(%s, check=False)' % (lam,), g.get_hook_length, *lam, check=False)
            if ok and int(h2) != want:
                out.violation('hook/get_hook_length/wrong_count_check_false', 'get_hook_length(%s, check=False) = %r != %d' % (lam, h2, want), shape=lam, got=repr(h2), expected=want)
            m = t = None
            ok, m = _call(out, 'hook/get_young_diagram_mask', 'get_young_diagram_mask(%s)' % (lam,), g.get_young_diagram_mask, lam)
            if ok:
                wantm = np.array([[1 if j < li else 0 for j in range(lam[0])] for li in lam], dtype=np.int64)
                if not (isinstance(m, np.ndarray) and m.shape == wantm.shape and np.array_equal(m, wantm)):
                    out.violation('hook/get_young_diagram_mask/wrong_mask', 'mask of %s is wrong' % (lam,), shape=lam, got=m)
            ok, t = _call(out, 'hook/get_young_diagram_transpose', 'get_young_diagram_transpose(%s)' % (lam,), g.get_young_diagram_transpose, lam)
            if ok:
                if tuple(int(x) for x in np.asarray(t).reshape(-1)) != ref_conjugate(lam):
                    out.violation('hook/get_young_diagram_transpose/wrong_conjugate', 'conjugate of %s: got %s, expected %s' % (lam, np.asarray(t).tolist(), ref_conjugate(lam)), shape=lam, got=t)
            # argument forms of get_hook_length (normalised to the lru_cache key): numpy integers on a cold cache, the plain
            # call after it, int / numpy-bool check flag
            seams.clear_numqi_caches()
            lam64 = tuple(np.int64(x) for x in lam)
            for form, a, kw in (('np_int64_cold_cache', lam64, {}), ('plain_after_numpy_form', lam, {}), ('int_check_flag', lam, {'check': 1}),
                                ('np_bool_check_false', lam, {'check': np.bool_(False)}), ('np_int32', tuple(np.int32(x) for x in lam), {'check': 0})):
                ok, hf = _call(out, 'argform/get_hook_length', 'get_hook_length%s, argument form %s' % (lam, form), g.get_hook_length, *a, **kw)
                out.count('hook_argument_forms')
                if ok and not (isinstance(hf, (int, np.integer)) and int(hf) == want):
                    out.violation('argform/get_hook_length/differs_from_plain_int_call', 'get_hook_length%s, argument form %s = %r, number of standard tableaux = %d' % (lam, form, hf, want),
                                  shape=lam, form=form, got=repr(hf), expected=want)
            # round trips through the library's own output (int64 ndarray input, check on and off): conjugation is an
            # involution, mask(lam^T) = mask(lam)^T, f(lam^T) = f(lam)
            if isinstance(t, np.ndarray) and isinstance(m, np.ndarray) and t.ndim == 1 and t.size:
                lamT = ref_conjugate(lam)
                for chk in (True, False):
                    ok, tt = _call(out, 'roundtrip/get_young_diagram_transpose', 'get_young_diagram_transpose(get_young_diagram_transpose(%s), check=%s)' % (lam, chk),
                                   g.get_young_diagram_transpose, t.copy(), check=chk)
                    if ok and not (isinstance(tt, np.ndarray) and tt.shape == (len(lam),) and tt.dtype == t.dtype and tuple(int(x) for x in tt) == lam):
                        out.violation('roundtrip/get_young_diagram_transpose/not_an_involution', 'conjugating %s twice (check=%s) gives %s' % (lam, chk, np.asarray(tt).tolist()), shape=lam, check=chk, got=tt)
                    ok, mt = _call(out, 'roundtrip/get_young_diagram_mask', 'get_young_diagram_mask(get_young_diagram_transpose(%s), check=%s)' % (lam, chk),
                                   g.get_young_diagram_mask, t.copy(), check=chk)
                    if ok and not (isinstance(mt, np.ndarray) and mt.dtype == m.dtype and mt.shape == m.T.shape and np.array_equal(mt, m.T)):
                        out.violation('roundtrip/get_young_diagram_mask/mask_of_conjugate_is_not_transposed_mask', 'mask of the conjugate of %s (check=%s) is not the transposed mask' % (lam, chk), shape=lam, check=chk, got=mt)
                    ok, mc_ = _call(out, 'roundtrip/get_young_diagram_mask', 'get_young_diagram_mask(%s, check=%s) from the conjugate of the conjugate' % (lam, chk),
                                    g.get_young_diagram_mask, np.array(lam, dtype=np.int32), check=chk)
                    if ok and not (isinstance(mc_, np.ndarray) and mc_.dtype == m.dtype and np.array_equal(mc_, m)):
                        out.violation('roundtrip/get_young_diagram_mask/int32_array_input_differs', 'mask of %s from an int32 array (check=%s) differs from the tuple call' % (lam, chk), shape=lam, check=chk, got=mc_)
                # column sums / row sums of the mask give the shape back
                if m.ndim == 2 and (tuple(int(x) for x in m.sum(axis=1)) != lam or tuple(int(x) for x in m.sum(axis=0)) != lamT):
                    out.violation('roundtrip/get_young_diagram_mask/mask_sums_are_not_the_shape', 'row / column sums of the mask of %s are not the shape and its conjugate' % (lam,), shape=lam, got=m)
                ok, hT = _call(out, 'roundtrip/get_hook_length', 'get_hook_length(*get_young_diagram_transpose(%s))' % (lam,), g.get_hook_length, *t)
                if ok and not (isinstance(hT, (int, np.integer)) and int(hT) == want):
                    out.violation('roundtrip/get_hook_length/conjugate_shape_has_another_count', 'get_hook_length of the conjugate of %s = %r, f(lam) = f(lam^T) = %d' % (lam, hT, want), shape=lam, got=repr(hT), expected=want)
                out.count('roundtrips')
            out.trace()
        out.sample = {'kind': 'hook', 'N': N, 'shapes': len(ref_partitions(N))}

    elif kind == 'tableaux':
        lam = tuple(case['shape'])
        N = case['N']
        want = ref_path_count(lam)
        assert want == ref_hook_count(lam)
        refset = set(ref_tableaux(lam))
        assert len(refset) == want, ('reference generator disagrees with the path count', lam)
        if N <= 7:
            assert brute_tableaux(lam) == refset, ('brute force disagrees with the reference generator', lam)
            out.count('shapes_brute_forced')
        site = 'tableaux/get_all_young_tableaux'
        results = []
        for variant, arg, kw in (('tuple', lam, {}), ('array_nocheck', np.array(lam, dtype=np.int64), {'check': False})):
            ok, Z = _call(out, site, 'get_all_young_tableaux(%s) [%s]' % (lam, variant), g.get_all_young_tableaux, arg, **kw)
            if not ok:
                continue
            if not (isinstance(Z, np.ndarray) and Z.ndim == 3 and Z.shape[1:] == (len(lam), lam[0]) and Z.dtype.kind in 'iu'):
                out.violation(site + '/shape', 'tableaux of %s: not an integer (#,%d,%d) array: %s' % (lam, len(lam), lam[0], getattr(Z, 'shape', None)), shape=lam)
                continue
            results.append(Z)
            out.state(len(Z))
            mask = np.array([[j < li for j in range(lam[0])] for li in lam])
            got = []
            for z in Z:
                inside = sorted(z[mask].tolist())
                t = tuple(tuple(int(x) for x in z[i, :li]) for i, li in enumerate(lam))
                got.append(t)
                if inside != list(range(N)):
                    out.violation(site + '/not_a_filling', 'tableau %s of shape %s does not contain each of 0..%d once' % (z.tolist(), lam, N - 1), shape=lam, tableau=z)
                    break
                if z[~mask].any():
                    out.violation(site + '/padding_not_zero', 'cells outside the shape %s are not zero in %s' % (lam, z.tolist()), shape=lam, tableau=z)
                    break
                rows_inc = all(t[i][j] < t[i][j + 1] for i in range(len(lam)) for j in range(lam[i] - 1))
                cols_inc = all(t[i][j] < t[i + 1][j] for i in range(len(lam) - 1) for j in range(lam[i + 1]))
                if not (rows_inc and cols_inc):
                    out.violation(site + '/not_standard', 'tableau %s of shape %s is not standard (rows and columns must increase)' % ([list(r) for r in t], lam), shape=lam, tableau=z)
                    break
            gs = set(got)
            if len(gs) != len(got):
                dup = sorted(t for t in gs if got.count(t) > 1)[0]
                out.violation(site + '/duplicate', 'tableau %s of shape %s is enumerated more than once' % ([list(r) for r in dup], lam), shape=lam, tableau=dup, returned=len(got))
            if len(got) != want:
                out.violation(site + '/wrong_number', 'shape %s: %d tableaux enumerated, hook-length formula and lattice path count give %d' % (lam, len(got), want), shape=lam, got=len(got), expected=want)
            miss = sorted(refset - gs)
            if miss:
                out.violation(site + '/missing', 'standard tableau %s of shape %s is not enumerated (%d missing)' % ([list(r) for r in miss[0]], lam, len(miss)), shape=lam, tableau=miss[0])
        if len(results) == 2 and not np.array_equal(results[0], results[1]):
            out.violation(site + '/check_flag_changes_result', 'shape %s: check=False / array input gives a different enumeration' % (lam,), shape=lam)
        ok, h = _call(out, 'hook/get_hook_length', 'get_hook_length%s' % (lam,), g.get_hook_length, *lam)
        if ok and results and int(h) != len(results[0]):
            out.violation(site + '/count_differs_from_hook_length', 'shape %s: %d tableaux but get_hook_length = %s' % (lam, len(results[0]), h), shape=lam, got=len(results[0]), hook=int(h))
        if results:
            out.outcome(('tableaux', lam, results[0]), nontrivial=len(results[0]) > 1)
            out.agg = {'N': N, 'shape': lam, 'count': int(len(results[0]))}
        out.trace()
        out.sample = {'kind': 'tableaux', 'shape': list(lam), 'standard_tableaux': want}

    elif kind == 'reject':
        # admissibility: a composition that is not non-increasing (or has a zero) is not a Young diagram
        for N in range(1, case['N_max'] + 1):
            for k in range(1, N + 1):
                for comp in itertools.product(range(0, N + 1), repeat=k):
                    if sum(comp) != N or (min(comp) > 0 and all(comp[i] >= comp[i + 1] for i in range(k - 1))):
                        continue
                    out.state()
                    out.trans()
                    try:
                        g.get_all_young_tableaux(comp)
                        out.count('non_partition_accepted')
                    except AssertionError:
                        out.count('rejected_by_precondition')
                    except Exception as e:
                        out.count('non_partition_other_exception[%s]' % type(e).__name__)
                    # with check=True (the default) every function that takes a diagram must reject it rather than return a
                    # count / mask / list; tuple and int64-array forms, default and explicit flag, and once more after the
                    # unchecked call of the same composition (check is part of the lru_cache key of get_hook_length)
                    arr = np.array(comp, dtype=np.int64)
                    checked = [('get_hook_length', lambda: g.get_hook_length(*comp)), ('get_hook_length', lambda: g.get_hook_length(*comp, check=True)),
                               ('get_all_young_tableaux', lambda: g.get_all_young_tableaux(comp)), ('get_all_young_tableaux', lambda: g.get_all_young_tableaux(arr.copy(), check=True)),
                               ('get_young_diagram_mask', lambda: g.get_young_diagram_mask(comp)), ('get_young_diagram_mask', lambda: g.get_young_diagram_mask(arr.copy(), check=True)),
                               ('get_young_diagram_transpose', lambda: g.get_young_diagram_transpose(comp)), ('get_young_diagram_transpose', lambda: g.get_young_diagram_transpose(arr.copy(), check=True))]
                    unchecked = [lambda: g.get_hook_length(*comp, check=False), lambda: g.get_young_diagram_mask(comp, check=False),
                                 lambda: g.get_young_diagram_transpose(comp, check=False)]
                    for phase in ('cold', 'after_unchecked_call'):
                        for fname, call in checked:
                            out.trans()
                            try:
                                res = call()
                            except AssertionError:
                                out.count('invalid_diagram_rejected')
                                continue
                            except Exception as e:  # not a clean rejection, but no result either
                                out.count('invalid_diagram_other_exception[%s]' % type(e).__name__)
                                continue
                            if 'invalid_diagram_accepted' in PENDING:
                                out.count('pending/invalid_diagram_accepted')
                                continue
                            out.violation('reject/%s/invalid_diagram_accepted' % fname, '%s accepts %s (not a Young diagram: zero part or increasing rows) with check=True and returns %s (%s)' % (fname, comp, repr(res)[:80], phase),
                                          composition=comp, phase=phase, got=repr(res)[:300])
                        if phase == 'cold':
                            for call in unchecked:   # outside the admissible domain: anything may happen, nothing is compared
                                try:
                                    call()
                                    out.count('invalid_diagram_unchecked_call_returns')
                                except Exception:
                                    out.count('invalid_diagram_unchecked_call_raises')
        out.outcome(('reject', dict(out.counters)), nontrivial=False)
        out.sample = {'kind': 'reject', 'N_max': case['N_max']}
    else:
        raise ValueError(kind)


def finalize(aggs, out, env):
    """cross-case invariant on the *observed* counts: sum over shapes of f(lambda)^2 == N!  (RSK)"""
    byN = {}
    for _, a in aggs:
        if isinstance(a, dict) and 'count' in a:
            byN.setdefault(a['N'], []).append(a)
    for N, lst in sorted(byN.items()):
        if len(lst) != len(ref_partitions(N)):
            continue  # --only filter or a shape that failed: the per-shape violation is already there
        out.state()
        s = sum(a['count'] ** 2 for a in lst)
        if s != math.factorial(N):
            out.violation('tableaux/get_all_young_tableaux/sum_of_squares', 'N=%d: sum over shapes of (#tableaux)^2 = %d != N! = %d' % (N, s, math.factorial(N)), N=N, counts={str(a['shape']): a['count'] for a in lst})
        out.outcome(('rsk', N, s), nontrivial=N > 1)
